"""C17 — Remodeling operations are pure functions of their parameters and input table."""
import copy
import io
import json

from hypothesis import strategies as st

from vlib.core import Outcome, Part

PROPERTY = "C17"
LEVEL = "exploration"
SHARDS = {"quick": 8, "thorough": 16}
TECHNIQUE = "Hypothesis-generated operation lists and tables: reference implementations on plain Python rows, purity " \
            "snapshots, order/repeat metamorphic relation on one dispatcher, validator/executor agreement"
LEVEL_TEXT = ("Valid operation lists (1-4 of the 8 non-summary operations, optional parameters present or omitted) are "
              "run by one Dispatcher over 1-3 tables in a generated order with repeats: each result must equal the "
              "result of a reference implementation written from the operations' documentation (all 8 operations; "
              "split_rows as the final operation, merge durations not modelled), must not depend on processing order or repetition, "
              "and must leave the input table and the operation parameters unchanged; lists accepted by the "
              "RemodelerValidator must run to completion on tables holding the named columns (documented errors for "
              "missing columns pass), and every invalid list must be reported.")
LEVEL_NOTE = "trusted: the reference implementations in this module; pandas.read_csv as used by the dispatcher for input"
RULE = ("part 'run': Hypothesis (operation list, 1-3 tables of 0-8 rows over onset/duration/code/resp/val/extra incl. "
        "n/a, numeric-looking and duplicate values, processing order with repeats); non-trivial = >=2 tables through "
        "one dispatcher or an operation with an optional parameter omitted. part 'invalid': valid lists with one "
        "schema violation; every case non-trivial.")
ASSUMPTIONS = ["remove_values / factor_values are generated in the type the column has after reading (numbers for "
               "numeric columns): comparing '3' with 3 is left open by the documentation",
               "factor_column without factor_values is applied to columns without n/a (the name of an n/a factor is "
               "not documented)", "at most one remap_columns with integer_sources per list (the source column is text "
               "afterwards)", "tables are read from TSV text exactly as Dispatcher.get_data_file reads files"]

COLUMNS = ["onset", "duration", "code", "resp", "val", "extra", "amt"]
CODES = ["go", "stop", "a1", "n/a", "b2"]
RESPS = ["left", "right", "n/a", "3", "none"]
OPT_OMITTED = "optional-parameter-omitted"


def read_table(text):
    import pandas as pd
    return pd.read_csv(io.StringIO(text), sep="\t", header=0, keep_default_na=False, na_values=",null")


@st.composite
def table(draw, need=()):
    cols = ["onset", "duration"] + [c for c in COLUMNS[2:] if c in need or draw(st.booleans())]
    n = draw(st.integers(0, 8))
    rows = []
    t = 0.0
    for r in range(n):
        t = round(t + draw(st.sampled_from([0.5, 1.0, 2.25])), 2)
        row = {"onset": str(t), "duration": draw(st.sampled_from(["0.5", "1", "n/a", "2.0"]))}
        for c in cols[2:]:
            if c == "code":
                row[c] = draw(st.sampled_from(CODES))
            elif c == "resp":
                row[c] = draw(st.sampled_from(RESPS))
            elif c == "amt":
                row[c] = draw(st.sampled_from(["1.0", "2.0", "2.5", "10.0"]))      # a column read as floats
            elif c == "val":
                row[c] = draw(st.sampled_from(["1", "2", "3", "10", "n/a"]))
            else:
                row[c] = draw(st.sampled_from(["x", "y", "n/a", "x", "y", "n/a", "NA", "None", "nan"]))   # text, not missing
        rows.append(row)
    # consecutive duplicates make merge_consecutive interesting
    if rows and draw(st.booleans()):
        i = draw(st.integers(0, len(rows) - 1))
        dup = dict(rows[i])
        dup["onset"] = str(round(float(rows[i]["onset"]) + 0.1, 2))
        rows.insert(i + 1, dup)
    text = "\t".join(cols) + "\n" + "".join("\t".join(r[c] for c in cols) + "\n" for r in rows)
    return {"cols": cols, "rows": rows, "text": text}


def op(name, params):
    return {"operation": name, "description": "generated", "parameters": params}


@st.composite
def operation(draw):
    kind = draw(st.sampled_from(["remove_rows", "remove_columns", "rename_columns", "reorder_columns", "factor_column",
                                 "remap_columns", "merge_consecutive", "split_rows"]))
    feats = []
    if kind == "remove_rows":
        col = draw(st.sampled_from(["code", "resp", "val", "missingcol", "extra", "kind"]))
        vals = {"code": CODES, "resp": RESPS, "val": [1, 2, 3, 10], "missingcol": ["q"], "extra": ["x", "n/a", "m00"],
                "kind": ["m00", "n/a", "m10"]}[col]
        p = {"column_name": col, "remove_values": list(draw(st.sets(st.sampled_from(vals), min_size=1, max_size=2)))}
    elif kind == "remove_columns":
        p = {"column_names": list(draw(st.sets(st.sampled_from(COLUMNS[2:] + ["missingcol"]), min_size=1, max_size=3))),
             "ignore_missing": draw(st.booleans())}
    elif kind == "rename_columns":
        keys = list(draw(st.sets(st.sampled_from(COLUMNS[2:] + ["missingcol"]), min_size=1, max_size=2)))
        p = {"column_mapping": {k: k + "_new" for k in keys}, "ignore_missing": draw(st.booleans())}
    elif kind == "reorder_columns":
        p = {"column_order": draw(st.lists(st.sampled_from(COLUMNS + ["missingcol"]), min_size=1, max_size=4,
                                          unique=True)),
             "ignore_missing": draw(st.booleans()), "keep_others": draw(st.booleans())}
    elif kind == "factor_column":
        col = draw(st.sampled_from(["code", "resp", "val", "extra", "kind"]))
        p = {"column_name": col}
        mode = draw(st.integers(0, 2))
        if col in ("extra", "kind"):
            mode = max(mode, 1)
        vals = {"code": ["go", "stop", "a1", "zz"], "resp": ["left", "right", "3", "none"],
                "val": ["1", "2", "10"], "extra": ["x", "n/a", "m00"], "kind": ["m00", "n/a", "m10"]}[col]
        if mode >= 1:
            p["factor_values"] = list(draw(st.lists(st.sampled_from(vals), min_size=1, max_size=3, unique=True)))
        else:
            feats.append(OPT_OMITTED)
        if mode == 2:
            p["factor_names"] = [f"f_{i}" for i in range(len(p["factor_values"]))]
        elif mode == 1:
            feats.append(OPT_OMITTED)
    elif kind == "remap_columns":
        src = draw(st.sampled_from([["code"], ["code", "resp"], ["val"], ["amt"]]))
        dst = draw(st.sampled_from([["kind"], ["kind", "grp"], ["extra"]]))
        nmap = draw(st.integers(1, 4))
        keys = []
        for i in range(nmap):
            key = []
            for s in src:
                key.append(draw(st.sampled_from({"code": CODES, "resp": RESPS, "val": [1, 2, 3], "amt": [1.0, 2.0, 2.5]}[s])))
            if key not in keys:
                keys.append(key)
        p = {"source_columns": src, "destination_columns": dst,
             "map_list": [k + [draw(st.sampled_from([f"m{i}{j}", f"m{i}{j}", f"it's m{i}{j}", f'"m{i}{j}"']))
                               for j in range(len(dst))] for i, k in enumerate(keys)],
             "ignore_missing": draw(st.booleans())}
        if src == ["val"]:
            p["integer_sources"] = ["val"]
        else:
            feats.append(OPT_OMITTED)
    elif kind == "merge_consecutive":
        p = {"column_name": "code", "event_code": draw(st.sampled_from(["go", "stop", "a1"])),
             "set_durations": draw(st.booleans()), "ignore_missing": draw(st.booleans())}
        if draw(st.booleans()):
            p["match_columns"] = list(draw(st.sets(st.sampled_from(["resp", "val", "extra"]), min_size=1, max_size=2)))
        else:
            feats.append(OPT_OMITTED)
    else:
        ev = {"onset_source": draw(st.sampled_from([[0], [0.5, "duration"], ["duration"]])),
              "duration": draw(st.sampled_from([[0], [0.25], ["duration"], [0.25, "duration"], [0.5, 0.25]]))}
        if draw(st.booleans()):
            ev["copy_columns"] = list(draw(st.sets(st.sampled_from(["resp", "val"]), min_size=1, max_size=2)))
        else:
            feats.append(OPT_OMITTED)
        p = {"anchor_column": draw(st.sampled_from(["code", "newanchor"])),
             "new_events": {draw(st.sampled_from(["resp_ev", "late"])): ev},
             "remove_parent_row": draw(st.booleans())}
    return {"op": op(kind, p), "feats": feats}


def needed_columns(o, raw=False):
    p, k = o["parameters"], o["operation"]
    need = set()
    if k in ("factor_column", "remove_rows"):
        need.add(p["column_name"])
    if k == "remap_columns":
        need.update(p["source_columns"])
    if k == "merge_consecutive":
        need.add(p["column_name"])
        need.update(p.get("match_columns", []))
    if k == "split_rows":
        for ev in p["new_events"].values():
            need.update(ev.get("copy_columns", []))
    return need if raw else {c for c in need if c in COLUMNS}


@st.composite
def run_case(draw):
    ops = draw(st.lists(operation(), min_size=1, max_size=4))
    # an integer source column is text after the first remap: a second remap of it is not 'values of the expected kind'
    seen_int = False
    kept = []
    for o in ops:
        if o["op"]["operation"] == "remap_columns" and o["op"]["parameters"].get("integer_sources"):
            if seen_int:
                continue
            seen_int = True
        kept.append(o)
    ops = kept
    # an operation that looks at a column written by an earlier remap
    for i, o in enumerate(list(ops)):
        if o["op"]["operation"] == "remap_columns" and draw(st.booleans()) and len(ops) < 5:
            dest = o["op"]["parameters"]["destination_columns"][0]
            follow = draw(st.sampled_from([
                op("factor_column", {"column_name": dest, "factor_values": ["m00", "n/a"]}),
                op("remove_rows", {"column_name": dest, "remove_values": ["n/a"]}),
                op("remove_rows", {"column_name": dest, "remove_values": ["m00", "m10"]})]))
            ops.insert(i + 1, {"op": follow, "feats": []})
            break
    need = set()
    for o in ops:
        need |= needed_columns(o["op"])
    tables = draw(st.lists(table(need=tuple(sorted(need))), min_size=1, max_size=3))
    order = draw(st.lists(st.integers(0, len(tables) - 1), min_size=len(tables), max_size=len(tables) + 3))
    for i in range(len(tables)):
        if i not in order:
            order.append(i)
    return {"ops": [o["op"] for o in ops], "feats": sorted({f for o in ops for f in o["feats"]}),
            "tables": tables, "order": order}


# ------------------------------------------------------------------------------------------------------------
# reference implementations on lists of dict rows (cells: str, float, int or None for n/a)
class Skip(Exception):
    """The reference does not cover this case."""


def ref_value(x):
    import math
    if x is None or (isinstance(x, float) and math.isnan(x)):
        return "n/a"
    return x


def frame_to_rows(df):
    import pandas as pd
    rows = []
    for i in range(len(df)):
        row = {}
        for c in df.columns:
            v = df[c].iloc[i]       # per column: iterating rows would upcast mixed int/float rows to float
            v = v.item() if hasattr(v, "item") else v
            row[c] = None if (isinstance(v, str) and v == "n/a") or pd.isna(v) else v
        rows.append(row)
    return list(df.columns), rows


def ref_apply(o, cols, rows):
    k, p = o["operation"], o["parameters"]
    if k == "remove_rows":
        if p["column_name"] not in cols:
            return cols, rows
        return cols, [r for r in rows if not any(r[p["column_name"]] is not None and r[p["column_name"]] == v
                                                 for v in p["remove_values"])]
    if k == "remove_columns":
        missing = [c for c in p["column_names"] if c not in cols]
        if missing and not p["ignore_missing"]:
            raise KeyError("documented")
        keep = [c for c in cols if c not in p["column_names"]]
        return keep, [{c: r[c] for c in keep} for r in rows]
    if k == "rename_columns":
        missing = [c for c in p["column_mapping"] if c not in cols]
        if missing and not p["ignore_missing"]:
            raise KeyError("documented")
        newc = [p["column_mapping"].get(c, c) for c in cols]
        if len(set(newc)) != len(newc):
            raise Skip()
        return newc, [{p["column_mapping"].get(c, c): r[c] for c in cols} for r in rows]
    if k == "reorder_columns":
        missing = [c for c in p["column_order"] if c not in cols]
        if missing and not p["ignore_missing"]:
            raise ValueError("documented")
        order = [c for c in p["column_order"] if c in cols]
        if p["keep_others"]:
            order += [c for c in cols if c not in order]
        return order, [{c: r[c] for c in order} for r in rows]
    if k == "factor_column":
        col = p["column_name"]
        if col not in cols:
            raise KeyError("documented")
        values = p.get("factor_values")
        if not values:
            if any(r[col] is None for r in rows):
                raise Skip()
            values = list(dict.fromkeys(r[col] for r in rows))
        names = p.get("factor_names") or [f"{col}.{v}" for v in values]
        newc = list(cols)
        out = [dict(r) for r in rows]
        for v, nm in zip(values, names):
            if nm not in newc:
                newc.append(nm)
            for r, src in zip(out, rows):
                cell = src[col]
                r[nm] = 1 if (cell is not None and str(cell) == str(v)) else 0
        return newc, out
    if k == "remap_columns":
        src, dst = p["source_columns"], p["destination_columns"]
        if any(c not in cols for c in src):
            raise KeyError("documented")
        ints = set(p.get("integer_sources", []))
        table_ = {}
        for m in p["map_list"]:
            key = tuple(str(x) for x in m[:len(src)])
            table_.setdefault(key, m[len(src):])
        newc = list(cols) + [c for c in dst if c not in cols]
        out = []
        missing = False
        for r in rows:
            key = []
            for c in src:
                v = r[c]
                if v is None:
                    key.append("n/a")
                elif c in ints:
                    key.append(str(int(v)))
                else:
                    key.append(str(v))      # a float column is matched through its text ('1.0')
            hit = table_.get(tuple(key))
            nr = dict(r)
            # source columns come back as text
            for c in src:
                nr[c] = None if r[c] is None else key[src.index(c)]
            for j, c in enumerate(dst):
                nr[c] = None if hit is None or str(hit[j]) == "n/a" else hit[j]
            if hit is None:
                missing = True
            out.append(nr)
        if missing and not p["ignore_missing"]:
            raise ValueError("documented")
        return newc, out
    if k == "merge_consecutive":
        col = p["column_name"]
        if col not in cols:
            if p["ignore_missing"]:
                raise Skip()
            raise ValueError("documented")
        match = [c for c in p.get("match_columns", [])]
        missing = [c for c in match if c not in cols]
        if missing and not p["ignore_missing"]:
            raise ValueError("documented")
        if p["set_durations"] and ("onset" not in cols or "duration" not in cols):
            raise ValueError("documented")
        match = [c for c in match if c in cols]
        out = []
        prev_is_code = False
        prev = None
        extent = {}       # index in out of a row that absorbed others -> latest end (onset + duration, n/a = 0)

        def end_of(x):
            try:
                d = float(x["duration"]) if x["duration"] is not None else 0.0
                return float(x["onset"]) + (0.0 if d != d else d)
            except (TypeError, ValueError):
                return None

        for r in rows:
            is_code = r[col] is not None and r[col] == p["event_code"]
            if is_code and prev_is_code and all(r[c] == prev[c] for c in match):
                prev = r
                if p["set_durations"]:
                    k_ = len(out) - 1
                    ends = [e for e in (extent.get(k_, end_of(out[k_])), end_of(r)) if e is not None]
                    extent[k_] = max(ends) if len(ends) == 2 else None
                continue          # merged into the first row of the run
            out.append(dict(r))
            prev_is_code = is_code
            prev = r
        if p["set_durations"]:
            for k_, r in enumerate(out):
                # "the extent of the merged events": from the kept row's onset to the latest end among them;
                # rows that absorbed nothing are not compared (their cells may merely change type)
                if k_ in extent and extent[k_] is not None:
                    try:
                        r["duration"] = ("extent", extent[k_] - float(r["onset"]))
                    except (TypeError, ValueError):
                        r["duration"] = Ellipsis
                else:
                    r["duration"] = Ellipsis
        return cols, out
    if k == "split_rows":
        if "onset" not in cols or "duration" not in cols:
            raise ValueError("documented")
        if any(v is Ellipsis or isinstance(v, tuple) for r in rows for v in r.values()):
            raise Skip()
        anchor = p["anchor_column"]
        newc = list(cols) + ([anchor] if anchor not in cols else [])

        def num(v):
            if v is None:
                return None
            try:
                return float(v)
            except (TypeError, ValueError):
                return None
        for ev in p["new_events"].values():     # missing columns are documented errors whatever the rows hold
            for src in list(ev["onset_source"]) + list(ev["duration"]):
                if isinstance(src, str) and src not in cols:
                    raise TypeError("documented")
            for c in ev.get("copy_columns", []):
                if c not in cols:
                    raise KeyError("documented")
        out = [] if p["remove_parent_row"] else [dict({c: r.get(c) for c in newc}) for r in rows]
        for r in out:
            r["onset"] = num(r["onset"])
        for ev_name, ev in p["new_events"].items():
            for r in rows:
                onset = num(r["onset"])
                for src in ev["onset_source"]:
                    if isinstance(src, str):
                        if src not in cols:
                            raise TypeError("documented")
                        add = num(r[src])
                        onset = None if onset is None or add is None else onset + add
                    else:
                        onset = None if onset is None else onset + src
                if onset is None:
                    continue
                dur = 0.0
                for src in ev["duration"]:
                    if isinstance(src, str):
                        if src not in cols:
                            raise TypeError("documented")
                        add = num(r[src])
                        dur = None if dur is None or add is None else dur + add
                    else:
                        dur = None if dur is None else dur + src
                nr = {c: None for c in newc}
                nr["onset"], nr["duration"], nr[anchor] = onset, dur, ev_name
                for c in ev.get("copy_columns", []):
                    if c not in cols:
                        raise KeyError("documented")
                    nr[c] = r[c]
                out.append(nr)
        # rows are returned in onset order; the order of rows sharing an onset is not specified
        out.sort(key=lambda r: (r["onset"] is None, r["onset"] if r["onset"] is not None else 0.0))
        for r in out:
            r["__ties_unordered__"] = True
        return newc, out
    raise Skip()


def same_cell(a, b):
    if a is Ellipsis or b is Ellipsis:
        return True
    for x, y in ((a, b), (b, a)):
        if isinstance(x, tuple) and x and x[0] == "extent":
            try:
                return abs(float(y) - x[1]) <= 1e-9 * max(1.0, abs(x[1]))
            except (TypeError, ValueError):
                return False
    a, b = ref_value(a), ref_value(b)
    if a == b:
        return True
    try:
        return float(a) == float(b) and not isinstance(a, str) and not isinstance(b, str)
    except (TypeError, ValueError):
        return str(a) == str(b) and (isinstance(a, str) == isinstance(b, str) or True) and str(a) == str(b)


def compare(cols, rows, df):
    if list(df.columns) != cols:
        return f"columns {list(df.columns)} expected {cols}"
    if len(df) != len(rows):
        return f"{len(df)} rows expected {len(rows)}"
    if any(r.get("__ties_unordered__") for r in rows) and "onset" in cols:
        # compare as multisets per onset value
        def keyrow(vals):
            return tuple(str(ref_value(v)) if not isinstance(ref_value(v), float) else repr(round(ref_value(v), 9))
                         for v in vals)
        exp = sorted(keyrow([(float(r[c]) if isinstance(r[c], (int, float)) and not isinstance(r[c], bool) else r[c])
                             for c in cols]) for r in rows)
        got = []
        for i in range(len(df)):
            vals = []
            for c in cols:
                v = df[c].iloc[i]
                v = v.item() if hasattr(v, "item") else v
                vals.append(float(v) if isinstance(v, (int, float)) and not isinstance(v, bool) else v)
            got.append(keyrow(vals))
        onsets = [float(x) for x in df["onset"]]
        if onsets != sorted(onsets):
            return f"rows not in onset order: {onsets}"
        if sorted(got) != exp:
            diff = [g for g in sorted(got) if g not in exp][:2], [e for e in exp if e not in sorted(got)][:2]
            return f"rows differ (as a multiset): got-only {diff[0]} expected-only {diff[1]}"
        return None
    for i, r in enumerate(rows):
        for c in cols:
            got = df[c].iloc[i]
            got = got.item() if hasattr(got, "item") else got
            if not same_cell(r[c], got):
                return f"row {i} column {c}: got {got!r} expected {ref_value(r[c])!r}"
    return None


def frame_snapshot(df):
    return (df.copy(deep=True), [str(t) for t in df.dtypes], list(df.columns), list(df.index))


def frame_same(snap, df):
    old, dt, cols, idx = snap
    return list(df.columns) == cols and list(df.index) == idx and [str(t) for t in df.dtypes] == dt and \
        old.astype(object).where(old.notna(), None).equals(df.astype(object).where(df.notna(), None))


DOCUMENTED = (KeyError, ValueError, TypeError)


def structure_changing(ops):
    return any(o["operation"] in ("remove_columns", "rename_columns") or
               (o["operation"] == "reorder_columns" and not o["parameters"]["keep_others"]) for o in ops)


def oracle_run(case):
    from hed.tools.remodeling.dispatcher import Dispatcher
    from hed.tools.remodeling.remodeler_validator import RemodelerValidator
    from hed.errors.exceptions import HedFileError
    out = Outcome()
    ops = case["ops"]
    out.nontrivial = len(case["tables"]) >= 2 or bool(case["feats"])
    out.classes = tuple(sorted({"op:" + o["operation"] for o in ops})) + tuple(case["feats"])
    msgs = RemodelerValidator().validate(copy.deepcopy(ops))
    if msgs:
        return out.bad("valid-list-rejected:" + "+".join(sorted({o["operation"] for o in ops})), f"{msgs[:2]} for "
                                                                                               f"{json.dumps(ops)}")
    ops_before = json.dumps(ops, sort_keys=True)
    try:
        disp = Dispatcher(ops, data_root=None, backup_name=None)
    except Exception as exc:  # noqa
        return out.bad(f"dispatcher-construction-raises:{type(exc).__name__}", f"{exc!r}: {json.dumps(ops)}")
    frames = [read_table(t["text"]) for t in case["tables"]]
    snaps = [frame_snapshot(f) for f in frames]
    results = {}
    for step, ti in enumerate(case["order"]):
        df = frames[ti]
        try:
            res = disp.run_operations(df)
            sig = ("ok", res)
        except (KeyError, ValueError, HedFileError, TypeError, IndexError, AttributeError) as exc:
            sig = ("exc", type(exc).__name__, str(exc)[:120])
            if type(exc).__name__ == "MergeError" and "_new" in str(exc):
                # known finding: KeyMap merges with the suffix '_new', which clashes with a table column literally
                # named '<destination>_new'
                out.bad("valid-list-crashes:MergeError:remap_columns:table-has-column-named-destination_new",
                        f"{exc}; ops {json.dumps(ops)}")
                results.setdefault(ti, ("exc", "MergeError-known", ""))
                continue
        if not frame_same(snaps[ti], df):
            out.bad("input-table-changed", f"table {ti} after step {step}: ops {json.dumps(ops)}\n{case['tables'][ti]['text']}")
        if json.dumps(ops, sort_keys=True) != ops_before:
            changed = [o["operation"] for o, b in zip(ops, json.loads(ops_before)) if o != b]
            out.bad("parameters-changed:" + "+".join(changed), f"{json.dumps(ops)} was {ops_before}")
            ops_before = json.dumps(ops, sort_keys=True)
        prev = results.get(ti)
        if prev is None:
            results[ti] = sig
        else:
            same = prev[0] == sig[0] and ((prev[0] == "exc" and prev[1] == sig[1]) or
                                          (prev[0] == "ok" and frame_same(frame_snapshot(prev[1]), sig[1])))
            if not same:
                out.bad("result-depends-on-processing-history:" + "+".join(sorted({o["operation"] for o in ops})),
                        f"table {ti} processed again at step {step} of order {case['order']} differs: ops "
                        f"{json.dumps(ops)}\n{case['tables'][ti]['text']}")
    # the same table given as a file name instead of a DataFrame: same result
    if results.get(0, ("",))[0] == "ok":
        import os
        import tempfile
        fd, path = tempfile.mkstemp(suffix="_events.tsv", dir=os.environ.get("HOME"))
        try:
            with os.fdopen(fd, "w", encoding="utf-8", newline="") as fp:
                fp.write(case["tables"][0]["text"])
            try:
                from_file = disp.run_operations(path)
                if not frame_same(frame_snapshot(results[0][1]), from_file):
                    out.bad("result-depends-on-input-form:" + "+".join(sorted({o["operation"] for o in ops})),
                            f"file form differs from DataFrame form: ops {json.dumps(ops)}\n{case['tables'][0]['text']}"
                            f"\nfile: {from_file.astype(str).values.tolist()[:4]}\nframe: "
                            f"{results[0][1].astype(str).values.tolist()[:4]}")
            except Exception as exc:  # noqa
                out.bad(f"file-form-raises:{type(exc).__name__}", f"{exc!r}: ops {json.dumps(ops)}\n"
                                                                  f"{case['tables'][0]['text']}")
        finally:
            os.unlink(path)
    # reference + runs-to-completion
    for ti, sig in results.items():
        cols, rows = frame_to_rows(frames[ti])
        exp_exc = None
        exp_op = None
        covered = True
        try:
            for idx, o in enumerate(ops):
                if o["operation"] == "split_rows" and idx != len(ops) - 1:
                    raise Skip()      # the reference models split_rows as the final operation only (tie order)
                exp_op = o["operation"]
                cols, rows = ref_apply(o, cols, rows)
        except Skip:
            covered = False
        except DOCUMENTED as exc:
            exp_exc = type(exc).__name__
        if sig[0] == "exc" and sig[1] == "MergeError-known":
            continue
        if sig[0] == "exc" and exp_exc == "ValueError" and exp_op == "remap_columns" and \
                sig[1] in ("TypeError", "IndexError", "AttributeError"):
            # the documented outcome is MapSourceValueMissing (a ValueError): a low-level error instead of it means the
            # operation died before it got to look the values up
            out.bad(f"valid-list-crashes:{sig[1]}:" + "+".join(sorted({o['operation'] for o in ops})),
                    f"{sig[2]} where the documented error is a ValueError (source values missing from the map); ops "
                    f"{json.dumps(ops)}\n{case['tables'][ti]['text']}")
            continue
        if sig[0] == "exc":
            documented_missing = any("missingcol" in json.dumps(o) for o in ops) or exp_exc is not None or \
                not set().union(*[needed_columns(o, raw=True) for o in ops]) <= set(frames[ti].columns)
            if covered and exp_exc is None and not documented_missing:
                out.bad(f"valid-list-crashes:{sig[1]}:" + "+".join(sorted({o['operation'] for o in ops})),
                        f"{sig[2]}; ops {json.dumps(ops)}\n{case['tables'][ti]['text']}")
            elif not covered and not documented_missing and (
                    sig[1] in ("TypeError", "IndexError", "AttributeError") or
                    (sig[1] == "KeyError" and not structure_changing(ops))):
                out.bad(f"valid-list-crashes:{sig[1]}:" + "+".join(sorted({o['operation'] for o in ops})),
                        f"{sig[2]}; ops {json.dumps(ops)}\n{case['tables'][ti]['text']}")
            continue
        if exp_exc is not None:
            out.bad(f"documented-error-not-raised:{exp_exc}", f"ops {json.dumps(ops)}\n{case['tables'][ti]['text']}")
            continue
        if covered:
            why = compare(cols, rows, sig[1])
            if why:
                out.bad("result-differs-from-documented-meaning:" + "+".join(o["operation"] for o in ops),
                        f"{why}; ops {json.dumps(ops)}\n{case['tables'][ti]['text']}\n got\n{sig[1].to_csv(sep=chr(9))}")
    return out


# ------------------------------------------------------------------------------------------------------------
@st.composite
def invalid_case(draw):
    base = draw(st.lists(operation(), min_size=1, max_size=3))
    ops = [copy.deepcopy(o["op"]) for o in base]
    i = draw(st.integers(0, len(ops) - 1))
    o = ops[i]
    kind = draw(st.sampled_from(["missing_required", "wrong_type", "extra_key", "unknown_operation", "no_description",
                                 "empty_list_param", "specific"]))
    p = o["parameters"]
    if kind == "missing_required":
        req = {"remove_rows": "column_name", "remove_columns": "ignore_missing", "rename_columns": "column_mapping",
               "reorder_columns": "keep_others", "factor_column": "column_name", "remap_columns": "map_list",
               "merge_consecutive": "event_code", "split_rows": "new_events"}[o["operation"]]
        p.pop(req)
    elif kind == "wrong_type":
        key = sorted(p)[draw(st.integers(0, len(p) - 1))]
        p[key] = draw(st.sampled_from([{"x": 1}, None])) if not isinstance(p[key], dict) else 7
    elif kind == "extra_key":
        p["not_a_parameter"] = 1
    elif kind == "unknown_operation":
        o["operation"] = "no_such_operation"
    elif kind == "no_description":
        o.pop("description")
    elif kind == "empty_list_param":
        lists = [k for k, v in p.items() if isinstance(v, list) and k != "match_columns"]   # minItems >= 1
        if not lists:
            o["operation"] = "no_such_operation"
        else:
            p[lists[0]] = []
    else:
        if o["operation"] == "factor_column":
            p["factor_values"] = ["a", "b"]
            p["factor_names"] = ["only_one"]
        elif o["operation"] == "remap_columns":
            p["map_list"] = [m + ["extra"] for m in p["map_list"]]
        elif o["operation"] == "merge_consecutive":
            p["match_columns"] = [p["column_name"]]
        else:
            o["parameters"] = ["not", "a", "dict"]
    # the same kind of operation once more, valid, before or after the faulty one (per-kind bookkeeping)
    twin = draw(st.sampled_from(["none", "after", "before", "after"]))
    if twin != "none":
        ops.insert(i + 1 if twin == "after" else i, copy.deepcopy(base[i]["op"]))
    return {"ops": ops, "kind": kind, "twin": twin}


def oracle_invalid(case):
    from hed.tools.remodeling.remodeler_validator import RemodelerValidator
    out = Outcome(nontrivial=True, classes=("invalid:" + case["kind"], "valid-twin:" + case.get("twin", "none")))
    try:
        msgs = RemodelerValidator().validate(copy.deepcopy(case["ops"]))
    except Exception as exc:  # noqa
        from vlib.core import crash_signature
        return out.bad(crash_signature(exc, "validator-raises") or f"validator-raises:{type(exc).__name__}",
                       f"{exc!r}: {json.dumps(case['ops'])}")
    if not msgs or not all(isinstance(m, str) and m for m in msgs):
        out.bad(f"invalid-list-accepted:{case['kind']}", json.dumps(case["ops"]))
    return out


def describe(case):
    return {"ops": case["ops"], "tables": [t["text"] for t in case.get("tables", [])], "order": case.get("order")}


def parts(tier):
    q = tier == "quick"
    return [Part("run", oracle_run, strategy=run_case(), n=1600 if q else 160000, describe=describe),
            Part("invalid", oracle_invalid, strategy=invalid_case(), n=800 if q else 48000, describe=describe)]
