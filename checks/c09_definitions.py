"""C09 — Definitions expand to their declared content and shrink back losslessly."""
import copy

from hypothesis import strategies as st

from vlib.core import Outcome, Part
from vlib import gen_hed, gen_tab, hedenv

PROPERTY = "C09"
LEVEL = "exploration"
SHARDS = {"quick": 8, "thorough": 16}
TECHNIQUE = "model-based testing: Hypothesis operation sequences (expand/shrink/copy/validate/str/sort) on one " \
            "HedString against a tree model; acceptance table for definition faults; permuted Def-expand content"
LEVEL_TEXT = ("(a) each generated definition (valid or with one of 13 faults) is accepted into a DefinitionDict iff the "
              "reference rules accept it, else DEFINITION_INVALID; (b) operation histories of up to 12 steps on one "
              "annotation object must keep str(obj) equal (as an unordered tree) to the model after every step, never "
              "raise, leave earlier copies untouched, and validate clean; (c) the true Def-expand content under any "
              "sibling permutation is accepted, any content mutation is DEF_EXPAND_INVALID; (d) the Series API agrees "
              "with the object API.")
LEVEL_NOTE = "trusted: the tree model in this module (what expansion of Def/Name[/v] is), vlib/gen_hed.py definitions"
RULE = ("Hypothesis: 1-3 definitions (with/without '#', nested content, unit-carrying placeholders), an annotation "
        "using them at any depth as Def tags and as written Def-expand groups, then an operation list. Non-trivial = "
        "history has two consecutive expands or an expand after a shrink, or a placeholder definition is used.")
ASSUMPTIONS = ["tags are generated in canonical short form so that str(obj) can be compared textually",
               "sibling order is not compared (definition content is documented as stored sorted)", "schema 8.3.0"]

VERSION = "8.3.0"
OPS = ["expand", "shrink", "copy", "validate", "str", "sort", "expand", "shrink"]
DEF_FAULTS = ["two_groups", "extra_tag", "slash_in_name", "hash_in_name", "nested_def", "nested_defexpand",
              "nested_definition", "no_hash_but_takes", "two_hash", "hash_without_takes", "hash_on_plain_tag",
              "duplicate_name", "two_hash_without_takes"]


def occ(d, value, written):
    ref = d["name"] + (f"/{value}" if value is not None else "")
    return {"kind": "defocc", "name": d["name"], "value": value, "written": written, "ref": ref, "t": f"Def/{ref}",
            "id": "def/" + ref.casefold()}


@st.composite
def history_case(draw):
    pl = gen_hed.pool(VERSION)
    used = set()
    defs = []
    while not defs:
        defs = draw(gen_hed.definitions(VERSION, used))
    tree = draw(gen_hed.subtree(VERSION, used, 2, False, False, 1, 3))
    nocc = draw(st.integers(1, 4))
    for _ in range(nocc):
        d = defs[draw(st.integers(0, len(defs) - 1))]
        val = gen_hed.def_value_for(draw, d, pl) if d["takes"] else None
        earlier = [x["value"] for x in gen_hed.flatten(tree) if x.get("kind") == "defocc" and x["name"] == d["name"]
                   and x["value"] and x["value"].swapcase() != x["value"] and " " not in x["value"]
                   and all(c.isalnum() or c in "-_." for c in x["value"])]   # not the case of a unit symbol
        if earlier and draw(st.booleans()):
            val = earlier[0].swapcase()      # same definition, value differing only in letter case
        o = occ(d, val, draw(st.sampled_from(["S", "S", "E", "B"])))
        if o["written"] == "B":
            extra = [n for n in pl.plain if n.long not in used]
            o["bad_extra"] = extra[draw(st.integers(0, min(20, len(extra) - 1)))].short
        spots = [(p, lst) for p, lst in gen_hed.all_groups(tree)]
        p, lst = draw(st.sampled_from(spots))
        # no two equal occurrences in one list (that would be a repeated tag)
        if any(x.get("kind") == "defocc" and x["ref"].casefold() == o["ref"].casefold() for x in lst):
            continue
        lst.insert(draw(st.integers(0, len(lst))), o)
    ops = draw(st.lists(st.sampled_from(OPS), min_size=2, max_size=12))
    perm_seed = draw(st.integers(0, 10 ** 6))
    return {"defs": defs, "tree": tree, "ops": ops, "perm_seed": perm_seed}


def def_by_name(defs):
    return {d["name"]: d for d in defs}


def model_tree(tree, defs, state):
    """Nested lists of tag texts for the annotation with every definition occurrence in the given state
    ('written' = as the author wrote it, 'E' = all expanded, 'S' = all shrunk)."""
    dn = def_by_name(defs)
    out = []
    for x in tree:
        if gen_hed.is_group(x):
            out.append(model_tree(x["g"], defs, state))
        elif x.get("kind") == "defocc":
            st_ = x["written"] if state == "written" else state
            if x["written"] == "B" and state in ("written", "E-unshrunk"):
                st_ = "B"
            if st_ == "E-unshrunk":
                st_ = "E"
            if st_ == "S":
                out.append(f"Def/{x['ref']}")
            else:
                d = dn[x["name"]]
                content = gen_hed.substitute(d["content"], x["value"]) if x["value"] is not None else d["content"]
                tt = gen_tab.text_tree(content)
                if st_ == "B":     # a hand-written Def-expand group whose content is not the definition's
                    tt = tt + [x["bad_extra"]]
                out.append([f"Def-expand/{x['ref']}", tt])
        else:
            out.append(x["t"])
    return out


def _flat_texts(tree):
    for x in tree:
        if isinstance(x, list):
            yield from _flat_texts(x)
        else:
            yield x


def render(tree):
    parts = []
    for x in tree:
        parts.append("(" + render(x) + ")" if isinstance(x, list) else x)
    return ", ".join(parts)


def has_occ(tree):
    return any(x.get("kind") == "defocc" for x in gen_hed.flatten(tree))


def oracle_history(case):
    from hed.models import HedString
    from hed.models.definition_dict import DefinitionDict
    out = Outcome()
    defs, tree, ops = case["defs"], case["tree"], case["ops"]
    sch = hedenv.schema(VERSION)
    dd = DefinitionDict(gen_hed.def_strings(defs), sch)
    if len(dd.defs) != len(defs):
        return out.bad("valid-definition-rejected", str(gen_hed.def_strings(defs)))
    text = render(model_tree(tree, defs, "written"))
    obj = HedString(text, sch, def_dict=dd)
    state = "written"
    has_bad = any(x.get("written") == "B" for x in gen_hed.flatten(tree))
    shrunk_once = False
    kept = []   # (object, expected canon, label)
    seq = []
    consecutive = False
    prev = None
    for op in ops:
        if (op == "expand" and prev == "expand") or (op == "expand" and "shrink" in seq):
            consecutive = True
        seq.append(op)
        prev = op
        try:
            if op == "expand":
                obj.expand_defs()
                state = "E-unshrunk" if (has_bad and not shrunk_once) else "E"
            elif op == "shrink":
                obj.shrink_defs()
                state = "S"
                shrunk_once = True
            elif op == "copy":
                kept.append((obj, gen_tab.canon(model_tree(tree, defs, state)), f"original before copy #{len(kept)}"))
                obj = obj.copy()
            elif op == "validate":
                issues = obj.validate(allow_placeholders=False)
                errs = sorted({i["code"] for i in issues if i["severity"] == 1})
                still_bad = has_bad and not shrunk_once
                if still_bad:
                    if "DEF_EXPAND_INVALID" not in errs:
                        out.bad("altered-written-defexpand-accepted:state-" + state,
                                f"{text!r} after {seq}: {errs}; defs={gen_hed.def_strings(defs)}")
                elif errs:
                    out.bad("valid-annotation-rejected-in-state:" + state + ":" + "+".join(errs),
                            f"{text!r} after {seq}: {errs}; defs={gen_hed.def_strings(defs)}")
            elif op == "sort":
                obj.sort()
            got_text = str(obj)
        except RecursionError:
            return out.bad("crash:RecursionError", f"{text!r} after {seq}; defs={gen_hed.def_strings(defs)}")
        except Exception as exc:  # noqa
            from vlib.core import crash_signature
            return out.bad(crash_signature(exc, "history-raises") or f"history-raises:{type(exc).__name__}",
                           f"{exc!r}: {text!r} after {seq}; defs={gen_hed.def_strings(defs)}")
        got = gen_tab.parsed_tree(got_text)
        exp = model_tree(tree, defs, state)
        if got is None or gen_tab.canon(got) != gen_tab.canon(exp):
            out.bad(f"state-differs-from-model:after-{op}", f"{text!r} after {seq}: got {got_text!r} expected "
                                                            f"{render(exp)!r}; defs={gen_hed.def_strings(defs)}")
            break
        # the swapped tags are Def / Def-expand tags in every respect, e.g. for a term search on the same object
        flat_exp = list(_flat_texts(exp))
        want = {"def": any(t.casefold().startswith("def/") for t in flat_exp),
                "def-expand": any(t.casefold().startswith("def-expand/") for t in flat_exp)}
        from hed.models.query_handler import QueryHandler
        for term, expected in want.items():
            if bool(QueryHandler(term).search(obj)) != expected:
                out.bad(f"term-search-disagrees-with-state:after-{op}", f"{term!r} expected {expected} on {got_text!r} "
                                                                        f"after {seq}")
                break
        for o, canon_exp, label in kept:
            try:
                g = gen_tab.parsed_tree(str(o))
            except RecursionError:
                return out.bad("crash:RecursionError", f"{label}: {text!r} after {seq}")
            if g is None or gen_tab.canon(g) != canon_exp:
                out.bad("earlier-object-changed-by-later-operation", f"{label}: {text!r} after {seq}: {str(o)!r}")
                break
    takes = any(x.get("value") is not None for x in gen_hed.flatten(tree) if x.get("kind") == "defocc")
    out.nontrivial = has_occ(tree) and (consecutive or takes)
    out.classes = tuple(c for c, ok in (("expand-after-expand-or-shrink", consecutive), ("placeholder-def", takes),
                                        ("copy", "copy" in ops), ("bad-written-expand", has_bad),
                                        ("case-variant-values", len({x["ref"].casefold() for x in gen_hed.flatten(tree)
                                                                   if x.get("kind") == "defocc"}) <
                                         len({x["ref"] for x in gen_hed.flatten(tree) if x.get("kind") == "defocc"})),
                                        ("written-def-expand",
                                         any(x.get("written") == "E" for x in gen_hed.flatten(tree)))) if ok)
    # (d) Series API agrees with the object API
    if has_occ(tree) and not out.violations and not has_bad:
        import pandas as pd
        from hed.models import df_util
        ser = pd.Series([text, "Sensory-event"])
        df_util.expand_defs(ser, sch, dd)
        g = gen_tab.parsed_tree(str(ser[0]))
        if g is None or gen_tab.canon(g) != gen_tab.canon(model_tree(tree, defs, "E")) or ser[1] != "Sensory-event":
            out.bad("series-expand-differs", f"{text!r} -> {ser[0]!r}")
        df_util.shrink_defs(ser, sch)
        g = gen_tab.parsed_tree(str(ser[0]))
        if g is None or gen_tab.canon(g) != gen_tab.canon(model_tree(tree, defs, "S")) or ser[1] != "Sensory-event":
            out.bad("series-shrink-differs", f"{text!r} -> {ser[0]!r}")
        # the DataFrame form and the events-file object do the same, on their HED column and in place
        import io
        from hed.models.tabular_input import TabularInput
        frame = pd.DataFrame({"other": ["x", "y"], "HED": [text, "Sensory-event"]})
        tab = TabularInput(io.StringIO("onset\tHED\n1.0\t" + text + "\n2.0\tSensory-event\n"), name="t")
        try:
            for state, step in (("E", "expand"), ("S", "shrink"), ("E", "expand")):
                if step == "expand":
                    df_util.expand_defs(frame, sch, dd, ["HED"])
                    tab.expand_defs(sch, dd)
                else:
                    df_util.shrink_defs(frame, sch, ["HED"])
                    tab.shrink_defs(sch)
                want = gen_tab.canon(model_tree(tree, defs, state))
                for name, cell, other in (("dataframe", frame["HED"][0], frame["HED"][1]),
                                          ("events-file", tab.dataframe["HED"][0], tab.dataframe["HED"][1])):
                    g = gen_tab.parsed_tree(str(cell))
                    if g is None or gen_tab.canon(g) != want or other != "Sensory-event":
                        out.bad(f"{name}-{step}-differs", f"{text!r} -> {cell!r}")
        except Exception as exc:  # noqa
            from vlib.core import crash_signature
            out.bad(crash_signature(exc, "table-form-raises") or f"table-form-raises:{type(exc).__name__}",
                    f"{exc!r}: {text!r}")
    return out


# -------------------------------------------------------------------------------------------------------------
@st.composite
def acceptance_case(draw):
    pl = gen_hed.pool(VERSION)
    used = set()
    defs = []
    while not defs:
        defs = draw(gen_hed.definitions(VERSION, used))
    d = defs[0]
    start = draw(st.integers(0, len(DEF_FAULTS)))
    order = (["none"] + DEF_FAULTS)
    order = order[start:] + order[:start]
    content = render(gen_tab.text_tree(d["content"]))
    name = d["name"] + ("/#" if d["takes"] else "")
    plain = [n for n in pl.plain if n.long not in used]
    valued = [n for n in pl.valued if n.long not in used]
    strings = None
    fault = None
    for f in order:
        fault = f
        if f == "none":
            strings = [f"(Definition/{name}, ({content}))"]
        elif f == "two_groups":
            strings = [f"(Definition/{name}, ({content}), ({plain[0].short}))"]
        elif f == "extra_tag":
            strings = [f"(Definition/{name}, {plain[0].short}, ({content}))"]
        elif f == "slash_in_name":
            strings = [f"(Definition/My/{name}, ({content}))"]
        elif f == "hash_in_name":
            strings = [f"(Definition/My#{name}, ({content}))"]
        elif f == "nested_def":
            strings = [f"(Definition/{name}, ({content}, Def/Other))"]
        elif f == "nested_defexpand":
            strings = [f"(Definition/{name}, ({content}, (Def-expand/Other, ({plain[0].short}))))"]
        elif f == "nested_definition":
            strings = [f"(Definition/{name}, ({content}, (Definition/Inner, ({plain[0].short}))))"]
        elif f == "no_hash_but_takes":
            if d["takes"]:
                continue
            strings = [f"(Definition/{d['name']}/#, ({content}))"]
        elif f == "two_hash":
            if not d["takes"]:
                continue
            strings = [f"(Definition/{name}, ({content}, {valued[0].short}/#))"]
        elif f == "hash_without_takes":
            if d["takes"]:
                continue
            strings = [f"(Definition/{name}, ({content}, {valued[0].short}/#))"]
        elif f == "two_hash_without_takes":
            if d["takes"]:
                continue
            strings = [f"(Definition/{name}, ({content}, {valued[0].short}/#, {valued[1].short}/#))"]
        elif f == "hash_on_plain_tag":
            if d["takes"]:
                continue
            ext = [n for n in pl.not_extendable if n.long not in used]
            strings = [f"(Definition/{d['name']}/#, ({content}, {ext[0].short}/#))"]
        elif f == "duplicate_name":
            strings = [f"(Definition/{name}, ({content}))",
                       f"(Definition/{name.swapcase()}, ({plain[0].short}))"]
        break
    return {"strings": strings, "fault": fault, "name": d["name"], "takes": d["takes"]}


def oracle_acceptance(case):
    from hed.models import HedString
    from hed.models.definition_dict import DefinitionDict
    out = Outcome(nontrivial=True, classes=("fault:" + case["fault"],))
    sch = hedenv.schema(VERSION)
    dd = DefinitionDict()
    all_issues = []
    per_string = []
    for s in case["strings"]:
        iss = dd.check_for_definitions(HedString(s, sch))
        per_string.append(iss)
        all_issues += iss
    codes = [i["code"] for i in all_issues]
    key = case["name"].casefold()
    # the same strings given to the constructor: same dictionary, and the reports are kept in .issues
    built = DefinitionDict(list(case["strings"]), sch)
    nested = DefinitionDict([list(case["strings"])], sch)       # a list inside the list is accepted too
    if sorted(i["code"] for i in nested.issues) != sorted(codes) or sorted(nested.defs) != sorted(dd.defs):
        out.bad("constructor-drops-the-reports:nested-list", f"{case['strings']} -> {[i['code'] for i in nested.issues]}")
    if sorted(built.defs) != sorted(dd.defs):
        out.bad("constructor-accepts-differently", f"{case['strings']} -> {sorted(built.defs)} vs {sorted(dd.defs)}")
    if sorted(i["code"] for i in built.issues) != sorted(codes):
        out.bad("constructor-drops-the-reports", f"{case['strings']} -> .issues {[i['code'] for i in built.issues]} "
                                                 f"expected {codes}")
    if case["fault"] == "none":
        if key not in dd.defs or codes:
            out.bad("valid-definition-rejected", f"{case['strings']} -> {codes}")
    elif case["fault"] == "duplicate_name":
        if key not in dd.defs or len(dd.defs) != 1:
            out.bad("duplicate-definition:first-not-kept", f"{case['strings']} -> {list(dd.defs)}")
        elif "DEFINITION_INVALID" not in [i["code"] for i in per_string[1]]:
            out.bad("duplicate-definition-not-reported", f"{case['strings']} -> {codes}")
        else:
            kept_tree = gen_tab.parsed_tree(str(dd.defs[key].contents))
            first_tree = gen_tab.parsed_tree(case["strings"][0])[0][1:]
            if kept_tree is None or gen_tab.canon(kept_tree) != gen_tab.canon(first_tree):
                out.bad("duplicate-definition-overwrote-first", f"{case['strings']} -> {dd.defs[key].contents}")
    else:
        if dd.defs:
            out.bad(f"faulty-definition-accepted:{case['fault']}", f"{case['strings']} -> defs {list(dd.defs)}")
        if "DEFINITION_INVALID" not in codes:
            out.bad(f"faulty-definition-not-reported:{case['fault']}", f"{case['strings']} -> {codes}")
    return out


# -------------------------------------------------------------------------------------------------------------
@st.composite
def defexpand_case(draw):
    pl = gen_hed.pool(VERSION)
    used = set()
    defs = []
    while not defs:
        defs = draw(gen_hed.definitions(VERSION, used))
    d = defs[draw(st.integers(0, len(defs) - 1))]
    val = gen_hed.def_value_for(draw, d, pl) if d["takes"] else None
    ref = d["name"] + (f"/{val}" if val is not None else "")
    content = gen_hed.substitute(d["content"], val) if val is not None else copy.deepcopy(d["content"])

    def permute(children):
        children = [dict(c, g=permute(c["g"])) if gen_hed.is_group(c) else c for c in children]
        return list(draw(st.permutations(children)))
    content = permute(content)
    mode = draw(st.sampled_from(["true", "true", "extra", "removed", "changed_value", "swapped_tag",
                                 "second_group", "sibling_tag", "content_twice", "no_content"]))
    plain = [n for n in pl.plain if n.long not in used]
    if mode == "extra":
        content.insert(draw(st.integers(0, len(content))), gen_hed.make_tag(plain[0].short, "x"))
    elif mode == "removed":
        if len(content) > 1:
            content.pop(draw(st.integers(0, len(content) - 1)))
        else:
            mode = "true"
    elif mode == "changed_value":
        if val is not None:
            content = permute(gen_hed.substitute(d["content"], val + "7"))
        else:
            mode = "true"
    elif mode == "swapped_tag":
        flat = [c for c in content if not gen_hed.is_group(c)]
        if flat:
            i = content.index(flat[0])
            content[i] = gen_hed.make_tag(plain[1].short, "x")
        else:
            mode = "true"
    members = [gen_hed.make_tag(f"Def-expand/{ref}", "de"), gen_hed.make_group(content)]
    if mode == "second_group":
        members.append(gen_hed.make_group([gen_hed.make_tag(plain[2].short, "x")]))
    elif mode == "sibling_tag":
        members.append(gen_hed.make_tag(plain[2].short, "x"))
    elif mode == "content_twice":
        members.append(gen_hed.make_group(copy.deepcopy(content)))
    elif mode == "no_content":
        members = members[:1]
    members = list(draw(st.permutations(members)))
    outer = draw(gen_hed.subtree(VERSION, used, 1, False, False, 0, 2))
    outer.insert(draw(st.integers(0, len(outer))), gen_hed.make_group(members))
    return {"defs": gen_hed.def_strings(defs), "text": gen_hed.render(outer), "mode": mode}


def oracle_defexpand(case):
    from hed.models import HedString
    from hed.models.definition_dict import DefinitionDict
    out = Outcome(nontrivial=True, classes=("defexpand:" + case["mode"],))
    sch = hedenv.schema(VERSION)
    dd = DefinitionDict(case["defs"], sch)
    codes = {i["code"] for i in HedString(case["text"], sch, def_dict=dd).validate(allow_placeholders=False)
             if i["severity"] == 1}
    if case["mode"] == "true":
        if "DEF_EXPAND_INVALID" in codes:
            out.bad("defexpand-true-content-rejected", f"{case['text']!r} defs={case['defs']}")
        elif codes:
            out.bad("defexpand-true-content-other-error:" + "+".join(sorted(codes)), f"{case['text']!r} "
                                                                                     f"defs={case['defs']}")
    elif "DEF_EXPAND_INVALID" not in codes:
        out.bad(f"defexpand-altered-content-accepted:{case['mode']}", f"{case['text']!r} defs={case['defs']} -> "
                                                                      f"{sorted(codes)}")
    # the column-wise gatherer judges a written Def-expand group of a KNOWN definition by the same comparison
    from hed.models import df_util
    if case["mode"] == "no_content":
        return out      # a Def-expand tag alone in its group: nothing is stated about the gatherer for that shape
    try:
        _, ambiguous, errors = df_util.process_def_expands([case["text"]], sch, known_defs=DefinitionDict(case["defs"], sch))
    except Exception as exc:  # noqa
        from vlib.core import crash_signature
        return out.bad(crash_signature(exc, "gatherer-raises") or f"gatherer-raises:{type(exc).__name__}",
                       f"{exc!r}: {case['text']!r}")
    if case["mode"] == "true" and (errors or ambiguous):
        out.bad("gatherer-rejects-true-content", f"{case['text']!r} defs={case['defs']} -> errors {list(errors)}")
    if case["mode"] in ("extra", "removed", "changed_value", "swapped_tag") and not errors:
        out.bad(f"gatherer-accepts-altered-content:{case['mode']}", f"{case['text']!r} defs={case['defs']}")
    return out


def describe_history(case):
    return {"defs": gen_hed.def_strings(case["defs"]), "text": render(model_tree(case["tree"], case["defs"], "written")),
            "ops": case["ops"]}


def warmup(tier):
    hedenv.schema(VERSION)
    gen_hed.pool(VERSION)


def parts(tier):
    q = tier == "quick"
    return [Part("history", oracle_history, strategy=history_case(), n=500 if q else 48000,
                 describe=describe_history),
            Part("acceptance", oracle_acceptance, strategy=acceptance_case(), n=1200 if q else 48000),
            Part("defexpand", oracle_defexpand, strategy=defexpand_case(), n=800 if q else 48000)]
