"""C10 — Onset/Offset/Inset bookkeeping follows the event history exactly."""
import io
import itertools

from hypothesis import strategies as st

from vlib.core import Outcome, Part
from vlib import gen_events, hedenv

PROPERTY = "C10"
LEVEL = "exploration"
SHARDS = {"quick": 8, "thorough": 16}
TECHNIQUE = "exhaustive enumeration of short histories + Hypothesis longer histories (Delay shifts, equal onsets, " \
            "valued and case-variant names) against a reference scope model"
LEVEL_TEXT = ("Every history of up to 3 (quick) / 4 (thorough) markers over {Onset, Offset, Inset} x {A, a, B} in up to "
              "4 time points (shared or separate rows) is rendered to an events file and validated; the multiset of "
              "temporal errors (which Def is unmatched, which marker repeats a name) must be one of the outcomes of "
              "the reference scope model (all orders of markers inside one effective time point are allowed). "
              "Hypothesis adds histories of up to 8 rows with Delay-shifted markers in several unit spellings, "
              "valued definitions and equal-onset rows.")
LEVEL_NOTE = "trusted: vlib/gen_events.py scope model (written from the statement)"
RULE = ("enumerated: (kind, name)^k x time steps {same point, next point}^(k-1) x {markers of a point share a row, "
        "separate rows}; random: Hypothesis rows with 0-2 markers, optional Delay in {0.25, 0.5, 1, 2.5} s, onsets "
        "advancing by {0, 0.5, 1, 2.5}. Non-trivial = >=1 Offset/Inset and >=2 markers; classes: re-Onset, same key "
        "twice in a point, Delay used, delayed marker landing on another row's time.")
ASSUMPTIONS = ["observable = multiset over TEMPORAL_TAG_ERROR issues of the tag they name (Def/<name> for unmatched "
               "Offset/Inset, the marker tag for a repeated name); row labels are C07's business",
               "schema 8.3.0; definitions A, B, C/#, D/# supplied as extra_def_dicts"]

VERSION = "8.3.0"
_dd = {}


def def_dict():
    from hed.models.definition_dict import DefinitionDict
    if "dd" not in _dd:
        _dd["dd"] = DefinitionDict(gen_events.DEFS, hedenv.schema(VERSION))
        assert len(_dd["dd"].defs) == 4
    return _dd["dd"]


def observe(rows):
    from hed.models.tabular_input import TabularInput
    tab = TabularInput(io.StringIO(gen_events.to_tsv(rows)), name="h")
    issues = tab.validate(hedenv.schema(VERSION), extra_def_dicts=def_dict(), name="h")
    keys = []
    other = []
    for i in issues:
        if i["severity"] != 1:
            continue
        if i["code"] == "TEMPORAL_TAG_ERROR":
            keys.append(str(i.get("source_tag")).casefold())
        else:
            other.append(i["code"])
    return tuple(sorted(keys)), other


_shared = {}


def observe_shared(rows):
    """The same file through a SpreadsheetValidator object that has already validated other files."""
    from hed.models.tabular_input import TabularInput
    from hed.validator.spreadsheet_validator import SpreadsheetValidator
    if "v" not in _shared:
        _shared["v"] = SpreadsheetValidator(hedenv.schema(VERSION))
    tab = TabularInput(io.StringIO(gen_events.to_tsv(rows)), name="h")
    dd = tab.get_def_dict(hedenv.schema(VERSION), extra_def_dicts=def_dict())
    issues = _shared["v"].validate(tab, dd, name="h")
    return tuple(sorted(str(i.get("source_tag")).casefold() for i in issues
                        if i["severity"] == 1 and i["code"] == "TEMPORAL_TAG_ERROR"))


def features(rows):
    pts = gen_events.effective_points(rows)
    marks = [m for r in rows for m in r["markers"]]
    cls = []
    seen_on = set()
    for t, ms in pts.items():
        ks = [gen_events.key(m["name"]) for _, m in ms]
        if len(ks) != len(set(ks)):
            cls.append("same-key-twice-in-point")
        for _, m in ms:
            if m["kind"] == "Onset":
                if gen_events.key(m["name"]) in seen_on:
                    cls.append("re-onset")
                seen_on.add(gen_events.key(m["name"]))
    if any(m.get("delay") for m in marks):
        cls.append("delay")
        onsets = {round(r["onset"], 6) for r in rows}
        if any(m.get("delay") and round(r["onset"] + m["delay"], 6) in onsets for r in rows for m in r["markers"]):
            cls.append("delay-lands-on-row-time")
    if len({r["onset"] for r in rows}) < len(rows):
        cls.append("equal-onset-rows")
    return sorted(set(cls)), marks


def oracle(rows):
    out = Outcome()
    cls, marks = features(rows)
    out.classes = tuple(cls)
    out.nontrivial = len(marks) >= 2 and any(m["kind"] != "Onset" for m in marks)
    try:
        got, other = observe(rows)
    except Exception as exc:  # noqa
        from vlib.core import crash_signature
        return out.bad(crash_signature(exc, "validate-raises") or f"validate-raises:{type(exc).__name__}",
                       f"{exc!r}\n{gen_events.to_tsv(rows)}")
    # one validator object reused for file after file must judge each file on its own
    try:
        again = observe_shared(rows)
    except Exception as exc:  # noqa
        from vlib.core import crash_signature
        return out.bad(crash_signature(exc, "shared-validator-raises") or "shared-validator-raises", repr(exc))
    allowed = gen_events.possible_outcomes(rows)
    if allowed is None:
        out.classes += ("undecided:model-too-wide",)
        out.nontrivial = False
        return out
    if again not in allowed and got in allowed:
        out.bad("reused-validator-judges-differently", f"fresh {got} reused {again} allowed {sorted(allowed)[:3]}\n"
                                                       f"{gen_events.to_tsv(rows)}")
    if got not in allowed:
        exp = sorted(allowed)[0]
        kind = "missed" if len(got) < min(len(a) for a in allowed) else \
            ("spurious" if len(got) > max(len(a) for a in allowed) else "different")
        tag = "delay" if "delay" in cls else ("shared-time" if ("equal-onset-rows" in cls or any(
            len(r["markers"]) > 1 for r in rows)) else "plain")
        out.bad(f"temporal-errors-{kind}:{tag}", f"got {got} allowed {sorted(allowed)[:4]}\n{gen_events.to_tsv(rows)}")
    bad_other = [c for c in other if c not in ("TAG_EXPRESSION_REPEATED",)]
    if bad_other:
        out.bad("unexpected-non-temporal-error:" + "+".join(sorted(set(bad_other))),
                f"{bad_other}\n{gen_events.to_tsv(rows)}")
    return out


def make_enum(k):
    def enum(shard, nshards):
        return itertools.islice(gen_events.enumerate_histories(k), shard, None, nshards)
    return enum


def describe(rows):
    return gen_events.to_tsv(rows)


def warmup(tier):
    hedenv.schema(VERSION)
    def_dict()


def parts(tier):
    q = tier == "quick"
    return [Part("short-histories", oracle, enumerate_fn=make_enum(3 if q else 4), exhaustive=True, describe=describe),
            Part("random-histories", oracle, strategy=gen_events.history(), n=800 if q else 24000, describe=describe)]


def extra_evidence(tier):
    return {"exhaustive_bound": f"all histories with <= {3 if tier == 'quick' else 4} markers over "
                                "{Onset,Offset,Inset} x {A,a,B}, time steps {0,1}, shared/separate rows"}
