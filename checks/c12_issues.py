"""C12 — Every reported issue is well-formed and points at the offending text."""
import copy
import io
import json
from collections import Counter

from hypothesis import strategies as st

from vlib.core import Outcome, Part
from vlib import gen_hed, gen_tab, hedenv

PROPERTY = "C12"
LEVEL = "exploration"
SHARDS = {"quick": 8, "thorough": 16}
TECHNIQUE = "Hypothesis: invalid-leaning inputs of the C01/C07/C08 generators through every entry point; invariants " \
            "over each issue, differential warnings-on/off, reference sort"
LEVEL_TEXT = ("Issues from string validation (default handler and a handler carrying the HED-string context), sidecar "
              "validation, table validation and dataset validation are checked one by one: fields and "
              "severity; offsets inside the validated text and selecting exactly the tag fragment the issue names; "
              "location suffix once (also when the same object is validated repeatedly); errors-only == ERROR subset "
              "of warnings-on; sort_issues == Python's stable sort on the documented key; JSON-serialisable after "
              "reference replacement with codes unchanged.")
LEVEL_NOTE = "trusted: the invariants below; the generators of C01/C07/C08 for input shapes"
RULE = ("parts: 'string' (valid and single-fault annotations), 'sidecar' (valid, faulty and definition-carrying "
        "sidecars, each object validated twice), 'table' (C07 tables incl. rows with >=3 HED cells), 'dataset' (C16 directory trees), 'sort' (synthetic "
        "issue lists with generated context fields). Non-trivial = >=2 issues with one carrying offsets (sort: >=2 "
        "issues sharing a sort key prefix).")
ASSUMPTIONS = ["'the fragment quoted in the message' is checked as: the selected text equals the slice of the named "
               "tag's original text given by the issue's own in-tag indexes, and for sub-tag issues that slice occurs "
               "in the message", "schema 8.3.0"]

VERSION = "8.3.0"
SUFFIX = "Problem spans string indexes"


def check_issue_fields(issues, out, where):
    for i in issues:
        if not (isinstance(i, dict) and isinstance(i.get("code"), str) and isinstance(i.get("message"), str)
                and i.get("severity") in (1, 10)):
            out.bad(f"issue-malformed:{where}", repr(i)[:300])
            return False
        if i["message"].count(SUFFIX) > 1:
            out.bad(f"location-suffix-repeated:{where}", i["message"][-200:])
    return True


def check_offsets(issues, out, where, text=None):
    from hed.models.hed_tag import HedTag
    from hed.models.hed_group import HedGroup
    n_off = 0
    for i in issues:
        if "char_index" not in i:
            continue
        n_off += 1
        ctx_obj = i.get("ec_HedString")
        t = text
        if ctx_obj is not None and hasattr(ctx_obj, "get_original_hed_string"):
            t = ctx_obj.get_original_hed_string()
        if t is None:
            t = i.get("source_string")
        if t is None:
            continue
        a = i["char_index"]
        b = i.get("char_index_end", a + 1)
        if not (isinstance(a, int) and isinstance(b, int) and 0 <= a <= b <= len(t)):
            out.bad(f"offsets-outside-text:{where}", f"{i['code']}: [{a},{b}) in text of length {len(t)}: {t!r}")
            continue
        tag = i.get("source_tag")
        if isinstance(tag, HedTag) and not tag.tag_modified():
            tt = tag.org_tag
            i0 = i.get("index_in_tag", 0)
            i1 = i.get("index_in_tag_end", len(tt))
            frag = tt[i0:i1]
            if t[a:b] != frag:
                out.bad(f"offsets-select-wrong-text:{where}", f"{i['code']}: selects {t[a:b]!r} but names "
                                                              f"{frag!r} of tag {tt!r} in {t!r}")
            elif "index_in_tag" in i and frag and frag not in i["message"]:
                out.bad(f"message-does-not-quote-fragment:{where}", f"{i['code']}: {frag!r} not in {i['message']!r}")
            if SUFFIX in i["message"] and f"{SUFFIX}: {a}, {b}" not in i["message"]:
                out.bad(f"suffix-disagrees-with-offsets:{where}", f"{i['message'][-80:]} vs {a},{b}")
        elif isinstance(tag, HedGroup) and not isinstance(tag, HedTag):
            g = tag.get_original_hed_string()
            if g and t[a:b] != g and tag.span != (None, None) and ctx_obj is not None and \
                    getattr(ctx_obj, "_from_strings", None) is None and ctx_obj.check_if_in_original(tag):
                out.bad(f"offsets-select-wrong-group:{where}", f"{i['code']}: selects {t[a:b]!r}, group is {g!r}")
        elif tag is None and "source_string" in i:
            if not (a < len(t)) or t[a] not in i["message"]:
                out.bad(f"string-level-offset-wrong:{where}", f"{i['code']}: index {a} in {t!r}: {i['message']!r}")
    return n_off


def key_of(i):
    return (i["code"], i.get("ec_row"), i.get("ec_column"), i.get("ec_sidecarColumnName"),
            i.get("ec_sidecarKeyName"), i.get("char_index"), i.get("char_index_end"))


def check_subset(with_w, errors_only, out, where):
    a = Counter(key_of(i) for i in with_w if i["severity"] == 1)
    b = Counter(key_of(i) for i in errors_only)
    if any(i["severity"] != 1 for i in errors_only):
        out.bad(f"errors-only-returns-warnings:{where}", str([i["code"] for i in errors_only if i["severity"] != 1]))
    if a != b:
        diff = sorted(set((a - b) | (b - a)), key=repr)[:4]
        out.bad(f"errors-only-differs-from-error-subset:{where}", f"{diff}")


def check_serialisable(issues, out, where):
    from hed.errors.error_reporter import replace_tag_references
    cp = copy.copy(issues)
    cp = [dict(i) for i in cp]
    codes = [i["code"] for i in cp]
    try:
        replace_tag_references(cp)
        json.dumps(cp)
    except Exception as exc:  # noqa
        out.bad(f"not-serialisable-after-replace:{where}", repr(exc)[:200])
        return
    if [i["code"] for i in cp] != codes:
        out.bad(f"codes-changed-by-replace:{where}", "")


# ------------------------------------------------------------------------------------------------------------
def string_strategy():
    from checks import c01_validate
    # a third of the cases carry a fault that is about one character or one piece of a tag (offsets inside a tag)
    inside_tag = ["ext_bad_char", "value_bad_name_char", "def_value_bad_char", "forbidden_char",
                  "placeholder_not_allowed", "ext_not_allowed", "unit_gibberish", "value_not_numeric"]
    return st.one_of(c01_validate.mutated_strategy([VERSION]), c01_validate.mutated_strategy([VERSION], inside_tag),
                     c01_validate.valid_strategy([VERSION]))


def oracle_string(case):
    from hed.models import HedString
    from hed.models.definition_dict import DefinitionDict
    from hed.errors.error_reporter import ErrorHandler
    from hed.errors.error_types import ErrorContext
    out = Outcome()
    sch = hedenv.schema(VERSION)
    dd = DefinitionDict(case["defs"], sch) if case["defs"] else None
    text = case["text"]
    results = {}
    handlers = {}
    for w in (True, False):
        hs = HedString(text, sch, def_dict=dd)
        plain = hs.validate(allow_placeholders=case["allow_placeholders"],
                            error_handler=ErrorHandler(check_for_warnings=w))
        hs2 = HedString(text, sch, def_dict=dd)
        h = ErrorHandler(check_for_warnings=w)
        h.push_error_context(ErrorContext.HED_STRING, hs2)
        ctx = hs2.validate(allow_placeholders=case["allow_placeholders"], error_handler=h)
        results[w] = (plain, ctx)
        handlers[w] = h
    n_off = 0
    for w, (plain, ctx) in results.items():
        for name, issues in (("string-default", plain), ("string-context", ctx)):
            if not check_issue_fields(issues, out, name):
                return out
            n_off += check_offsets(issues, out, name, text=text)
            check_serialisable(issues, out, name)
        if Counter(i["code"] for i in plain) != Counter(i["code"] for i in ctx):
            out.bad("context-handler-changes-codes", f"{text!r}")
    # independent expectation for character-level issues: in an otherwise valid annotation every flagged character
    # must be one of the characters the mutation injected
    known_bad = {"ext_bad_char": "$=@%!", "value_bad_name_char": "$ .+@=", "def_value_bad_char": "$=@%!", "placeholder_not_allowed": "#",
                 "forbidden_char": "[]~{}\x07\u00e9"}
    bad_chars = known_bad.get(case.get("mutation"))
    if bad_chars:
        for i in results[True][1]:
            if i["code"] in ("CHARACTER_INVALID", "PLACEHOLDER_INVALID", "TILDES_UNSUPPORTED") and "char_index" in i:
                sel = text[i["char_index"]:i.get("char_index_end", i["char_index"] + 1)]
                if len(sel) == 1 and sel not in bad_chars:
                    out.bad("flagged-character-is-not-the-offending-one", f"{i['code']} selects {sel!r} in {text!r} "
                                                                          f"(injected: {case['mutation']})")
    check_subset(results[True][0], results[False][0], out, "string-default")
    check_subset(results[True][1], results[False][1], out, "string-context")
    out.nontrivial = len(results[True][1]) >= 2 and n_off > 0
    out.classes = (("has-offsets",) if n_off else ()) + (("mutation:" + str(case.get("mutation")),))
    # last (it changes the issue objects): the same issues handed to the context decoration once more, as a caller
    # collecting issues from several layers does - message and offsets must stay as they are
    for w, (plain, ctx) in results.items():
        before = [(x["message"], x.get("char_index"), x.get("char_index_end")) for x in ctx]
        handlers[w].add_context_and_filter(ctx)
        after = [(x["message"], x.get("char_index"), x.get("char_index_end")) for x in ctx]
        if before != after:
            k = next(k for k in range(len(before)) if k >= len(after) or before[k] != after[k])
            out.bad("second-decoration-changes-issue", f"{before[k]} -> {after[k] if k < len(after) else None}")
            break
    return out


def sidecar_strategy():
    from checks import c08_sidecar
    return st.one_of(c08_sidecar.fault_strategy().map(lambda c: {"doc": c["doc"], "kind": "fault"}),
                     c08_sidecar.valid_strategy().map(lambda c: {"doc": c["doc"], "kind": "valid"}),
                     baddef_sidecar())


@st.composite
def baddef_sidecar(draw):
    """Sidecars whose definitions column has a faulty definition naming a tag (cached definition issues)."""
    bad = draw(st.sampled_from(["(Definition/Bad1, (Def/Other, Red))", "(Definition/My/Bad, (Red))",
                                "(Definition/Bad3, (Event-context, Red))", "(Definition/Ok1, (Blue))"]))
    doc = {"mydefs": {"HED": {"d1": bad, "d2": "(Definition/Fine, (Green))"}},
           "trial_type": {"HED": {"go": draw(st.sampled_from(["Sensory-event, Qzx-unknown", "Label/a$b", "Square"]))}}}
    return {"doc": doc, "kind": "baddef"}


def oracle_sidecar(case):
    from hed.models.sidecar import Sidecar
    out = Outcome()
    sch = hedenv.schema(VERSION)
    from hed.errors.error_reporter import ErrorHandler
    sc = Sidecar(io.StringIO(json.dumps(case["doc"])), name="sc")
    try:
        with_w = sc.validate(sch, error_handler=ErrorHandler(check_for_warnings=True))
        errs = sc.validate(sch, error_handler=ErrorHandler(check_for_warnings=False))
        again = sc.validate(sch, error_handler=ErrorHandler(check_for_warnings=True))
    except Exception as exc:  # noqa
        from vlib.core import crash_signature
        return out.bad(crash_signature(exc, "sidecar-validate-raises") or "sidecar-validate-raises", repr(exc))
    n_off = 0
    for name, issues in (("sidecar", with_w), ("sidecar-errors-only", errs), ("sidecar-revalidated", again)):
        if not check_issue_fields(issues, out, name):
            return out
        n_off += check_offsets(issues, out, name)
        check_serialisable(issues, out, name)
    check_subset(with_w, errs, out, "sidecar")
    if Counter(key_of(i) for i in with_w) != Counter(key_of(i) for i in again):
        out.bad("revalidation-differs", "")
    if [i["message"] for i in with_w] != [i["message"] for i in again]:
        out.bad("messages-change-on-revalidation", "")
    from hed.errors.error_reporter import sort_issues
    check_sorted(with_w, sort_issues(with_w), out, "sidecar")
    out.nontrivial = len(with_w) >= 2 and n_off > 0
    out.classes = ("sidecar:" + case["kind"],)
    return out


def table_strategy():
    from checks import c07_filevalidate
    return st.one_of(c07_filevalidate.strategy(), wide_table())


@st.composite
def wide_table(draw):
    """Rows with >= 3 non-empty HED-bearing cells and a row-level issue naming a tag of a late cell."""
    used = set()
    spec = {"columns": {}, "order": []}
    names = ["c1", "c2", "c3", "c4"]
    tags = ["Square", "Triangle", "Green", "Blue", "Building", "Walk"]
    for i, nm in enumerate(names):
        spec["columns"][nm] = {"kind": "categorical", "extra": False,
                               "entries": {"k": [gen_hed.make_tag(tags[i], tags[i].casefold(), kind="plain")]}}
        spec["order"].append(nm)
    dup = draw(st.sampled_from(tags[:4]))
    late = draw(st.sampled_from(["(Onset)", f"{dup}", f"({dup}, Walk), (Walk, {dup})", "(Event-context, (Red)), "
                                 "(Event-context, (Blue))", "Qzx-unknown"]))
    header = names + ["HED"]
    rows = [["k", "k", draw(st.sampled_from(["k", "n/a"])), "k", late],
            ["k", "n/a", "k", "k", draw(st.sampled_from(["n/a", dup, "Red"]))]]
    if draw(st.booleans()):     # with an onset column rows are validated from the joined text, without it from the cells
        header = ["onset"] + header
        rows = [[str(1.0 + 1.5 * i)] + r for i, r in enumerate(rows)]
    return {"spec": spec, "table": {"header": header, "rows": rows}, "mode": "wide", "perm": [0, 1], "features": [],
            "faulty_rows": []}


def oracle_table(case):
    from checks import c07_filevalidate
    from hed.models.sidecar import Sidecar
    from hed.models.tabular_input import TabularInput
    from hed.errors.error_reporter import ErrorHandler, sort_issues
    out = Outcome()
    sch = hedenv.schema(VERSION)
    spec, t = case["spec"], case["table"]
    doc = gen_tab.sidecar_json(spec)
    res = {}
    try:
        for w in (True, False):
            sidecar = Sidecar(io.StringIO(json.dumps(doc)), name="sc")
            tab = TabularInput(io.StringIO(gen_tab.to_tsv(t)), sidecar=sidecar, name="tab")
            res[w] = tab.validate(sch, extra_def_dicts=c07_filevalidate.def_dict(), name="tab",
                                  error_handler=ErrorHandler(check_for_warnings=w))
    except Exception as exc:  # noqa
        from vlib.core import crash_signature
        return out.bad(crash_signature(exc, "table-validate-raises") or "table-validate-raises", repr(exc))
    n_off = 0
    for name, issues in (("table", res[True]), ("table-errors-only", res[False])):
        if not check_issue_fields(issues, out, name):
            return out
        n_off += check_offsets(issues, out, name)
        check_serialisable(issues, out, name)
    check_subset(res[True], res[False], out, "table")
    check_sorted(res[True], sort_issues(res[True]), out, "table")
    out.nontrivial = len(res[True]) >= 2 and n_off > 0
    out.classes = ("table:" + case["mode"],)
    return out


def dataset_strategy():
    from checks import c16_bids
    return c16_bids.tree()


def oracle_dataset(case):
    import shutil
    from checks import c16_bids
    from hed.tools.bids.bids_dataset import BidsDataset
    out = Outcome()
    root = c16_bids.write_tree(case["files"])
    try:
        res = {}
        try:
            for w in (True, False):
                res[w] = BidsDataset(root).validate(check_for_warnings=w)
        except Exception as exc:  # noqa
            from vlib.core import crash_signature
            return out.bad(crash_signature(exc, "dataset-validate-raises") or "dataset-validate-raises", repr(exc))
        n_off = 0
        for name, issues in (("dataset", res[True]), ("dataset-errors-only", res[False])):
            if not check_issue_fields(issues, out, name):
                return out
            n_off += check_offsets(issues, out, name)
            check_serialisable(issues, out, name)
        a = Counter(key_of(i) + (i.get("ec_filename"),) for i in res[True] if i["severity"] == 1)
        b = Counter(key_of(i) + (i.get("ec_filename"),) for i in res[False])
        if a != b or any(i["severity"] != 1 for i in res[False]):
            out.bad("errors-only-differs-from-error-subset:dataset", str(sorted((a - b) | (b - a), key=repr)[:3]))
        out.nontrivial = len(res[True]) >= 2 and n_off > 0
        out.classes = ("dataset",)
    finally:
        shutil.rmtree(root, ignore_errors=True)
    return out


# ------------------------------------------------------------------------------------------------------------
SORT_KEYS = ["ec_title", "ec_filename", "ec_sidecarColumnName", "ec_sidecarKeyName", "ec_row", "ec_column", "ec_line",
             "ec_section", "ec_schema_tag", "ec_attribute"]


def ref_sort_key(d):
    return tuple(d.get(k, -1) if k == "ec_row" else d.get(k, "") for k in SORT_KEYS)


def check_sorted(before, after, out, where):
    exp = sorted(before, key=ref_sort_key)
    if [id(x) for x in exp] != [id(x) for x in after]:
        if sorted(map(id, exp)) != sorted(map(id, after)):
            out.bad(f"sort-changes-elements:{where}", "")
        elif [ref_sort_key(x) for x in exp] != [ref_sort_key(x) for x in after]:
            out.bad(f"sort-order-differs-from-documented-key:{where}", str([ref_sort_key(x) for x in after])[:400])
        else:
            out.bad(f"sort-not-stable:{where}", "")


issue_strategy = st.lists(st.fixed_dictionaries(
    {"code": st.sampled_from(["A", "B"]), "message": st.just("m"), "severity": st.sampled_from([1, 10])},
    optional={"ec_filename": st.sampled_from(["f1", "f2", "a/f1"]), "ec_sidecarColumnName": st.sampled_from(["c1", "c2"]),
              "ec_sidecarKeyName": st.sampled_from(["k1", "k2", "K1"]), "ec_row": st.integers(0, 12),
              "ec_column": st.sampled_from(["HED", "x", "y"]), "ec_title": st.sampled_from(["t"])}),
    min_size=0, max_size=10)


def oracle_sort(issues):
    from hed.errors.error_reporter import sort_issues
    out = Outcome()
    for n, i in enumerate(issues):
        i["seq"] = n
    keys = [ref_sort_key(i) for i in issues]
    out.nontrivial = len(issues) >= 2 and len(set(keys)) < len(keys)
    check_sorted(issues, sort_issues(issues), out, "synthetic")
    rev = sort_issues(issues, reverse=True)
    if sorted(map(id, rev)) != sorted(map(id, issues)):
        out.bad("sort-changes-elements:reverse", "")
    return out


def warmup(tier):
    hedenv.schema(VERSION)
    gen_hed.pool(VERSION)
    from checks import c07_filevalidate
    c07_filevalidate.warmup(tier)


def parts(tier):
    q = tier == "quick"
    return [Part("string", oracle_string, strategy=string_strategy(), n=1200 if q else 48000),
            Part("sidecar", oracle_sidecar, strategy=sidecar_strategy(), n=400 if q else 16000),
            Part("table", oracle_table, strategy=table_strategy(), n=450 if q else 12000),
            Part("dataset", oracle_dataset, strategy=dataset_strategy(), n=40 if q else 1600),
            Part("sort", oracle_sort, strategy=issue_strategy, n=1500 if q else 48000)]
