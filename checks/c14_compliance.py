"""C14 — Schema compliance checking accepts released schemas and flags seeded faults."""
import itertools
from collections import Counter

from hypothesis import strategies as st

from vlib.core import Outcome, Part
from vlib import gen_schema, hedenv

PROPERTY = "C14"
LEVEL = "exploration"
SHARDS = {"quick": 8, "thorough": 16}
TECHNIQUE = "fault seeding into the schema XML text model at Hypothesis-drawn positions, expected specification code " \
            "as oracle; released schemas enumerated; warnings-off == error subset"
LEVEL_TEXT = ("Every bundled standard and partnered library schema must pass compliance without ERROR. One fault of 14 "
              "kinds is seeded into the XML (ElementTree edit, no hed code) at a drawn position of a drawn schema; the "
              "reloaded schema's compliance report must contain the specification's code for that fault naming the "
              "seeded entry; with warnings off exactly the ERROR-severity subset must be returned; repeated checks in "
              "one process (other schemas checked before) must not change the verdict.")
LEVEL_NOTE = "trusted: vlib/gen_schema.py seeding edits and the fault->code table (HED specification Appendix B names)"
RULE = ("part 'released': 9 schemas (enumerated). part 'seeded': Hypothesis (schema, fault kind, position index, "
        "variant); every seeded case is non-trivial; distinct = (schema, kind, position, variant). Before each seeded "
        "check another released schema is checked in the same process (cross-schema state).")
ASSUMPTIONS = ["a seeded file that the loader refuses with HedFileError counts as reported",
               "attribute-rule issues are emitted with WARNING severity by this implementation; the statement asks for "
               "the code with warnings on and for errors only with warnings off, which is what is checked"]

SCHEMAS = hedenv.STANDARD + list(hedenv.PARTNERED)
QUICK = ["8.3.0", "8.2.0", "score_2.0.0", "testlib_2.0.0"]
KINDS = ["duplicate_node", "undeclared_attribute", "foreign_section_attribute", "unit_class_missing",
         "value_class_missing", "suggested_tag_missing", "related_tag_missing", "class_on_non_placeholder",
         "deprecated_from_bad", "conversion_factor_bad", "default_units_bad", "allowed_character_bad",
         "in_library_foreign", "hed_id_bad"]
EXPECT = {"duplicate_node": {"SCHEMA_DUPLICATE_NODE", "SCHEMA_LIBRARY_INVALID"},
          "undeclared_attribute": {"SCHEMA_ATTRIBUTE_INVALID"}, "foreign_section_attribute": {"SCHEMA_ATTRIBUTE_INVALID"},
          "unit_class_missing": {"SCHEMA_ATTRIBUTE_VALUE_INVALID"}, "value_class_missing": {"SCHEMA_ATTRIBUTE_VALUE_INVALID"},
          "suggested_tag_missing": {"SCHEMA_ATTRIBUTE_VALUE_INVALID"},
          "related_tag_missing": {"SCHEMA_ATTRIBUTE_VALUE_INVALID"},
          "class_on_non_placeholder": {"SCHEMA_ATTRIBUTE_INVALID", "SCHEMA_ATTRIBUTE_VALUE_INVALID"}, "deprecated_from_bad": {"SCHEMA_DEPRECATION_ERROR"},
          "conversion_factor_bad": {"SCHEMA_ATTRIBUTE_VALUE_INVALID"},
          "default_units_bad": {"SCHEMA_ATTRIBUTE_VALUE_INVALID"},
          "allowed_character_bad": {"SCHEMA_ATTRIBUTE_VALUE_INVALID"},
          "in_library_foreign": {"SCHEMA_ATTRIBUTE_VALUE_INVALID"}, "hed_id_bad": {"SCHEMA_ATTRIBUTE_VALUE_INVALID"}}


def is83(root):
    return any(p.findtext("name") == "annotationProperty" for p in root.iter("propertyDefinition"))


def seed(version, kind, pos, variant):
    """Return (xml_text, entry_name, detail) or None when the kind does not apply to this schema."""
    root = gen_schema.clone(version)
    nodes = gen_schema.node_elements(root)
    plain = [(e, long, p) for e, long, p in nodes if not long.endswith("/#")]
    phs = [(e, long, p) for e, long, p in nodes if long.endswith("/#")]
    gen83 = is83(root)

    def pick(lst):
        if not lst:
            return None
        if pos % 5 == 0 and kind != "deprecated_from_bad":
            # one case in five sits on an entry that the released schema already marks as deprecated (or below one)
            def deprecated(item):
                el = item[0] if isinstance(item, tuple) else item
                return bool(gen_schema.attr_elems(el, "deprecatedFrom"))
            dep = [x for x in lst if deprecated(x)]
            if dep:
                return dep[(pos // 5) % len(dep)]
        return lst[pos % len(lst)]

    if kind == "duplicate_node":
        e, long, _ = pick(plain)
        others = [x for x in plain if not x[1].startswith(long) and not long.startswith(x[1])]
        tgt = others[(pos // 7) % len(others)][0]
        dup = gen_schema.new_node(e.findtext("name"), "seeded duplicate")
        lib = root.get("library")
        if lib and root.get("withStandard"):
            gen_schema.add_attr(dup, "inLibrary", lib)
        tgt.append(dup)
        return gen_schema.to_string(root), e.findtext("name"), f"copy of {long} under {tgt.findtext('name')}"
    if kind == "undeclared_attribute":
        e, long, _ = pick(plain)
        gen_schema.add_attr(e, ["notAnAttribute", "extensionallowed", "Rooted2"][variant % 3])
        return gen_schema.to_string(root), long, "unknown attribute"
    if kind == "foreign_section_attribute":
        sect = {6: 3, 7: 3, 8: 4, 9: 3, 10: 5, 11: 3}.get(variant % 12, variant % 12)
        if sect in (0, 3, 4, 5):
            e, long, _ = pick(plain)
            # an attribute declared for units / value classes / unit classes / modifiers only, placed on a tag
            an, av = {0: ("SIUnit", None), 3: ("allowedCharacter", "letters"), 4: ("defaultUnits", "s"),
                      5: ("SIUnitModifier", None)}[sect]
            if an not in gen_schema.declared_attrs(root):
                an, av = "SIUnit", None
            gen_schema.add_attr(e, an, av)
            return gen_schema.to_string(root), long, f"{an} on tag"
        if sect == 1:
            units = gen_schema.unit_elems(root)
            u, uc = pick(units)
            gen_schema.add_attr(u, "takesValue")      # a tag attribute on a unit
            return gen_schema.to_string(root), u.findtext("name"), "tag attribute on unit"
        vcs = gen_schema.value_class_elems(root)
        v = pick(vcs)
        gen_schema.add_attr(v, "SIUnitModifier")      # a modifier attribute on a value class
        return gen_schema.to_string(root), v.findtext("name"), "modifier attribute on value class"
    if kind in ("unit_class_missing", "value_class_missing"):
        an = "unitClass" if kind == "unit_class_missing" else "valueClass"
        cands = [(e, long) for e, long, _ in phs if gen_schema.attr_elems(e, an)]
        if not cands:
            return None
        e, long = pick(cands)
        gen_schema.set_attr_value(e, an, "noSuchClassX")
        return gen_schema.to_string(root), long, an
    if kind in ("suggested_tag_missing", "related_tag_missing"):
        an = "suggestedTag" if kind == "suggested_tag_missing" else "relatedTag"
        cands = [(e, long) for e, long, _ in plain if gen_schema.attr_elems(e, an)]
        if not cands:
            return None
        e, long = pick(cands)
        gen_schema.set_attr_value(e, an, "No-such-tag-x")
        return gen_schema.to_string(root), long, an
    if kind == "class_on_non_placeholder":
        cands = [(e, long) for e, long, _ in plain if not any(c.findtext("name") == "#" for c in e.findall("node"))]
        e, long = pick(cands)
        an = ["unitClass", "valueClass", "takesValue"][variant % 3]
        gen_schema.add_attr(e, an, None if an == "takesValue" else ("timeUnits" if an == "unitClass"
                                                                    else "numericClass"))
        return gen_schema.to_string(root), long, an
    if kind == "deprecated_from_bad":
        cands = [(e, long) for e, long, _ in plain if not e.findall("node") and not gen_schema.attr_elems(e, "deprecatedFrom")]
        e, long = pick(cands)
        in_lib = bool(gen_schema.attr_elems(e, "inLibrary")) or (root.get("library") and not root.get("withStandard"))
        ver = root.get("version") if (in_lib or not root.get("library")) else root.get("withStandard")
        bad = ["99.9.9", ver, ver, ver.split(".")[0] + ".99.0"][variant % 4]   # unknown / equal / equal / newer
        gen_schema.add_attr(e, "deprecatedFrom", bad)
        return gen_schema.to_string(root), long, f"deprecatedFrom {bad}"
    if kind == "conversion_factor_bad":
        units = [(u, uc) for u, uc in gen_schema.unit_elems(root) if gen_schema.attr_elems(u, "conversionFactor")]
        mods = [m for m in gen_schema.modifier_elems(root) if gen_schema.attr_elems(m, "conversionFactor")]
        cands = [u for u, _ in units] + mods
        if not cands:
            return None
        e = pick(cands)
        bad = ["0", "-1.0", "abc", "0.0"][variant % 4]
        gen_schema.set_attr_value(e, "conversionFactor", bad)
        return gen_schema.to_string(root), e.findtext("name"), f"conversionFactor {bad}"
    if kind == "default_units_bad":
        cands = [uc for uc in gen_schema.unit_class_elems(root) if gen_schema.attr_elems(uc, "defaultUnits")]
        if not cands:
            return None
        uc = pick(cands)
        others = [u.findtext("name") for u, c in gen_schema.unit_elems(root) if c is not uc
                  and u.findtext("name") not in [x.findtext("name") for x in uc.findall("unit")]]
        bad = ["noSuchUnit", others[pos % len(others)]][variant % 2]
        gen_schema.set_attr_value(uc, "defaultUnits", bad)
        return gen_schema.to_string(root), uc.findtext("name"), f"defaultUnits {bad}"
    if kind == "allowed_character_bad":
        cands = [e for e in gen_schema.value_class_elems(root) + [u for u, _ in gen_schema.unit_elems(root)]
                 if gen_schema.attr_elems(e, "allowedCharacter")]
        if not cands:
            return None
        e = pick(cands)
        gen_schema.set_attr_value(e, "allowedCharacter", ["notacharclass", "lettersx", "blanks"][variant % 3])
        return gen_schema.to_string(root), e.findtext("name"), "allowedCharacter"
    if kind == "in_library_foreign":
        if "inLibrary" not in gen_schema.declared_attrs(root):
            return None
        lib = root.get("library")
        if lib:
            cands = [(e, long) for e, long, _ in plain if gen_schema.attr_elems(e, "inLibrary")]
            if not cands:
                return None
            e, long = pick(cands)
            gen_schema.set_attr_value(e, "inLibrary", "otherlib")
        else:
            e, long, _ = pick(plain)
            gen_schema.add_attr(e, "inLibrary", "otherlib")
        return gen_schema.to_string(root), long, "inLibrary otherlib"
    if kind == "hed_id_bad":
        if not gen83:
            return None
        cands = [(e, long) for e, long, _ in plain if gen_schema.attr_elems(e, "hedId")]
        libc = [c for c in cands if gen_schema.attr_elems(c[0], "inLibrary")]
        if libc and variant % 2 == 0:
            cands = libc              # library nodes have their own id range
        if not cands:
            return None
        e, long = pick(cands)
        if variant % 3 == 2 and not root.get("library"):
            # 'changed': the same schema presented as the next version with one id altered (still inside the range)
            parts = root.get("version").split(".")
            root.set("version", f"{parts[0]}.{int(parts[1]) + 1}.0")
            gen_schema.set_attr_value(e, "hedId", "HED_0039990")
            return gen_schema.to_string(root), long, "hedId changed against the previous release"
        bad = ["HED_0000007", "HED_0099999"][variant % 2]     # outside every library's range
        gen_schema.set_attr_value(e, "hedId", bad)
        return gen_schema.to_string(root), long, f"hedId {bad}"
    return None


def compliance(schema, warnings):
    return schema.check_compliance(check_for_warnings=warnings)


def oracle_released(version):
    out = Outcome(nontrivial=True)
    sch = hedenv.schema(version)
    w = compliance(sch, True)
    e = compliance(sch, False)
    errs = [i for i in w if i["severity"] == 1]
    for i in errs:
        out.bad(f"released-schema-has-error:{i['code']}", f"{version}: {i['message'][:200]}")
    check_subset(w, e, out, version)
    return out


def check_subset(w, e, out, label):
    a = Counter((i["code"], i.get("ec_schema_tag"), i.get("ec_attribute")) for i in w if i["severity"] == 1)
    b = Counter((i["code"], i.get("ec_schema_tag"), i.get("ec_attribute")) for i in e)
    if any(i["severity"] != 1 for i in e):
        out.bad("warnings-returned-with-warnings-off", f"{label}: {[i['code'] for i in e if i['severity'] != 1][:5]}")
    if a != b:
        out.bad("warnings-off-differs-from-error-subset", f"{label}: {sorted((a - b) | (b - a), key=repr)[:4]}")


@st.composite
def seeded_case(draw, versions):
    weighted = KINDS + ["deprecated_from_bad", "hed_id_bad", "hed_id_bad", "foreign_section_attribute"]
    k = draw(st.integers(0, len(weighted) - 1))
    return {"version": draw(st.sampled_from(versions)), "kind": weighted[k], "pos": draw(st.integers(0, 5000)),
            "variant": draw(st.integers(0, 11)), "prime": draw(st.sampled_from(versions))}


def oracle_seeded(case):
    from hed.schema import from_string
    from hed.errors.exceptions import HedFileError
    out = Outcome()
    s = seed(case["version"], case["kind"], case["pos"], case["variant"])
    if s is None:
        return out
    xml, entry, detail = s
    out.nontrivial = True
    out.classes = ("kind:" + case["kind"],)
    # another schema is checked first in the same process: verdicts must not depend on it
    compliance(hedenv.schema(case["prime"]), True)
    try:
        sch = from_string(xml, schema_format=".xml")
    except HedFileError as exc:
        out.classes += ("refused-by-loader",)
        return out
    try:
        w = compliance(sch, True)
        e = compliance(sch, False)
    except Exception as exc:  # noqa
        from vlib.core import crash_signature
        return out.bad(crash_signature(exc, "compliance-raises") or f"compliance-raises:{type(exc).__name__}",
                       f"{case}: {exc!r}")
    want = EXPECT[case["kind"]]
    hits = [i for i in w if i["code"] in want and (
        i.get("ec_schema_tag") == entry or entry in i.get("message", ""))]
    if not hits:
        got = sorted({i["code"] for i in w if i.get("ec_schema_tag") == entry or entry in i.get("message", "")})
        out.bad(f"seeded-fault-not-reported:{case['kind']}", f"{case['version']} {detail} at {entry!r}: codes naming "
                                                              f"the entry: {got}")
    check_subset(w, e, out, f"{case['version']}+{case['kind']}")
    return out


def make_released_enum(versions):
    def enum(shard, nshards):
        return itertools.islice(iter(versions), shard, None, nshards)
    return enum


def warmup(tier):
    for v in (QUICK if tier == "quick" else SCHEMAS):
        hedenv.schema(v)


def parts(tier):
    q = tier == "quick"
    versions = QUICK if q else SCHEMAS
    return [Part("released", oracle_released, enumerate_fn=make_released_enum(SCHEMAS), exhaustive=True),
            Part("seeded", oracle_seeded, strategy=seeded_case(versions), n=480 if q else 16000)]
