"""C04 — Validation outcome does not depend on how an annotation is written.

Metamorphic oracle: the multiset of ERROR codes is unchanged by re-spelling tag names (other suffix path, other
letter case), by adding/removing blanks around commas and parentheses, and by permuting siblings.
"""
from collections import Counter

from hypothesis import strategies as st

from vlib.core import Outcome, Part
from vlib import gen_hed, hedenv

PROPERTY = "C04"
LEVEL = "exploration"
SHARDS = {"quick": 8, "thorough": 16}
TECHNIQUE = "metamorphic testing (Hypothesis): spelling / spacing / sibling-order rewrites of generated valid and " \
            "single-fault annotations must keep the multiset of error codes"
LEVEL_TEXT = ("Each generated annotation (valid, or with one injected tree-level fault incl. duplicated tags and "
              "groups) is validated before and after a generated meaning-preserving rewrite; the multisets of ERROR "
              "codes must be equal. No expected value is needed, so any order/spelling dependence is visible.")
LEVEL_NOTE = "trusted: the rewrite generator only applies transformations the HED specification declares " \
             "meaning-preserving (tag-name spelling and case, blanks around delimiters, order of siblings)"
RULE = ("Hypothesis: annotation from the C01 grammar (depth<=4), with probability ~0.6 one tree-level mutation "
        "(duplicates weighted up), then a rewrite (re-spell a drawn subset of tags, permute a drawn subset of sibling "
        "lists, random blanks). Non-trivial = rewrite changed the text and the annotation has >=1 group; class "
        "'dup' = contains a duplicated tag/group.")
ASSUMPTIONS = ["values/extensions are carried verbatim (their letter case is not varied)",
               "text-level delimiter faults (unbalanced parentheses, empty tags, missing commas) are only re-spaced, "
               "not re-ordered or re-spelled: their position is their meaning"]

QUICK = ["8.3.0", "score_2.0.0", "8.1.0"]
ALL = hedenv.BUNDLED
DUP_KINDS = ["duplicate_tag", "duplicate_group", "duplicate_among_same_base", "duplicate_tag_value_case"]
PLACEMENT_KINDS = ["toplevel_group_nested_twin", "toplevel_group_nested", "two_toplevel_tags_in_group",
                   "taggroup_tag_at_top", "onset_extra_group", "duration_two_groups"]


def strategy(versions):
    @st.composite
    def strat(draw):
        mode = draw(st.integers(0, 12))
        start = draw(st.integers(0, len(gen_hed.TREE_MUTATIONS) - 1))
        v = draw(st.sampled_from(versions))
        ap = draw(st.booleans())
        ann = draw(gen_hed.annotation(v, allow_placeholder=ap, max_depth=3))
        tree = ann["tree"]
        mutation = None
        if mode >= 10:
            # a Def-expand group whose members are not (tag, true content): judged alike in every member order
            mut = draw(gen_hed.mutated(ann, kinds=["defexpand_altered", "def_value_extra", "def_undeclared"], start=0))
            tree, mutation = mut["tree"], mut["mutation"]
        elif mode == 9:
            mut = draw(gen_hed.mutated(ann, kinds=PLACEMENT_KINDS, start=start))
            tree, mutation = mut["tree"], mut["mutation"]
        elif mode >= 7:
            mut = draw(gen_hed.mutated(ann, kinds=DUP_KINDS, start=start))
            tree, mutation = mut["tree"], mut["mutation"]
        elif mode >= 4:
            mut = draw(gen_hed.mutated(ann, kinds=gen_hed.TREE_MUTATIONS, start=start))
            tree, mutation = mut["tree"], mut["mutation"]
        before = gen_hed.render(tree)
        _, after = draw(gen_hed.rewritten(tree, v))
        return {"version": v, "defs": gen_hed.def_strings(ann["defs"]), "allow_placeholders": ap,
                "before": before, "after": after, "mutation": mutation, "depth": gen_hed.depth_of(tree)}
    return strat()


def codes(case, text):
    from hed.models import HedString
    from hed.models.definition_dict import DefinitionDict
    sch = hedenv.schema(case["version"])
    dd = DefinitionDict(case["defs"], sch) if case["defs"] else None
    issues = HedString(text, sch, def_dict=dd).validate(allow_placeholders=case["allow_placeholders"])
    return Counter(i["code"] for i in issues if i["severity"] == 1)


def oracle(case):
    out = Outcome()
    a = codes(case, case["before"])
    b = codes(case, case["after"])
    out.nontrivial = case["before"] != case["after"] and case["depth"] >= 1
    cls = []
    if case["mutation"] in DUP_KINDS:
        cls.append("dup")
    if case["mutation"]:
        cls.append("mutated")
    else:
        cls.append("valid-base")
    out.classes = tuple(cls)
    if a != b:
        diff = sorted(set((a - b) | (b - a)))
        out.bad("codes-change-under-rewrite:" + "+".join(diff),
                f"{case['version']} defs={case['defs']}\n before {case['before']!r} -> {dict(a)}\n after  "
                f"{case['after']!r} -> {dict(b)}")
    return out


# ------------------------------------------------------------------------------------------------------------
# blanks around delimiters of annotations with a delimiter fault (empty tag, missing comma, stray parenthesis)
def tokens_of(text):
    out, cur = [], ""
    for ch in text:
        if ch in ",()":
            out.append(cur.strip(" "))
            out.append(ch)
            cur = ""
        else:
            cur += ch
    out.append(cur.strip(" "))
    return out


def spacing_strategy(versions):
    @st.composite
    def strat(draw):
        start = draw(st.integers(0, len(gen_hed.TEXT_MUTATIONS) - 1))
        v = draw(st.sampled_from(versions))
        ann = draw(gen_hed.annotation(v, allow_placeholder=False, max_depth=2, with_defs=False, specials=False))
        kinds = [k for k in gen_hed.TEXT_MUTATIONS if k != "forbidden_char"]
        mut = draw(gen_hed.mutated(ann, kinds=kinds, start=start))
        before = mut["text"]
        sp = st.sampled_from(["", " ", "  "])
        after = ""
        for tok in tokens_of(before):
            if tok in (",", "(", ")"):
                after += draw(sp) + tok + draw(sp)
            else:
                after += tok
        return {"version": v, "defs": [], "allow_placeholders": False, "before": before, "after": after,
                "mutation": mut["mutation"], "depth": 1}
    return strat()


def oracle_spacing(case):
    out = oracle(case)
    out.classes = ("delimiter-fault:" + str(case["mutation"]),)
    out.nontrivial = case["before"] != case["after"]
    return out


# ------------------------------------------------------------------------------------------------------------
# a repeat is reported (or not) whatever stands beside and between the two copies
def repeat_strategy(versions):
    @st.composite
    def strat(draw):
        v = draw(st.sampled_from([x for x in versions if gen_hed.pool(x).extendable]))
        pl = gen_hed.pool(v)
        m = pl.m
        node = pl.extendable[draw(st.integers(0, len(pl.extendable) - 1))]
        ext = gen_hed.fresh_ext(draw, pl)
        second = draw(st.sampled_from([ext, ext.swapcase(), ext.upper(), ext.lower()]))
        group = draw(st.booleans())       # the copies are tags, or one-level groups holding the tag and a fixed tag
        other = pl.plain[draw(st.integers(0, len(pl.plain) - 1))]

        def item(e):
            t = f"{gen_hed.spelled(draw, node, m)}/{e}"
            return f"({t}, {other.short})" if group else t
        pair = [item(ext), item(second)]
        # bystanders: same node, extensions that sort before / between / after the copies in every collation
        stems = [ext[0].upper() + "zz" + ext[1:], ext[0].lower() + "aa" + ext[1:], "Aq" + ext[2:] + "b", "z" + ext]
        by = []
        for stem in draw(st.lists(st.sampled_from(stems), min_size=1, max_size=4, unique=True)):
            t = f"{node.short}/{stem}"
            by.append(f"({t}, {other.short})" if group else t)
        crowd = list(draw(st.permutations(pair + by)))
        return {"version": v, "pair": ", ".join(draw(st.permutations(pair))), "crowd": ", ".join(crowd),
                "same_case": second == ext, "group": group}
    return strat()


def oracle_repeat(case):
    out = Outcome(nontrivial=True, classes=("copies:" + ("groups" if case["group"] else "tags"),
                                            "case:" + ("same" if case["same_case"] else "variant")))
    c = {"version": case["version"], "defs": [], "allow_placeholders": False}
    alone = codes(c, case["pair"]).get("TAG_EXPRESSION_REPEATED", 0)
    crowded = codes(c, case["crowd"]).get("TAG_EXPRESSION_REPEATED", 0)
    if bool(alone) != bool(crowded):
        out.bad("repeat-report-depends-on-bystanders:" + ("same-case" if case["same_case"] else "case-variant"),
                f"{case['version']}: {case['pair']!r} -> {alone}; {case['crowd']!r} -> {crowded}")
    if case["same_case"] and not alone:
        out.bad("exact-repeat-not-reported", f"{case['version']}: {case['pair']!r}")
    return out


# ------------------------------------------------------------------------------------------------------------
# a group that merely looks like the inner group of a Definition in the same string
def twin_strategy(versions):
    @st.composite
    def strat(draw):
        v = draw(st.sampled_from(versions))
        pl = gen_hed.pool(v)
        valued = pl.valued[draw(st.integers(0, len(pl.valued) - 1))]
        plain = [pl.plain[draw(st.integers(0, len(pl.plain) - 1))] for _ in range(draw(st.integers(1, 2)))]
        members = [f"{valued.short}/#"] + [p_.short for p_ in plain]
        inner = ", ".join(draw(st.permutations(members)))
        twin_a = inner
        twin_b = ", ".join(draw(st.permutations(members)))
        head = draw(st.sampled_from(["(Definition/Xdef/#, ({}))", "(({}), Definition/Xdef/#)"])).format(inner)
        return {"version": v, "a": f"{head}, ({twin_a})", "b": f"{head}, ({twin_b})",
                "allow_placeholders": draw(st.booleans())}
    return strat()


def oracle_twin(case):
    out = Outcome(nontrivial=case["a"] != case["b"])
    c = {"version": case["version"], "defs": [], "allow_placeholders": case["allow_placeholders"]}
    a, b = codes(c, case["a"]), codes(c, case["b"])
    if a != b:
        out.bad("codes-change-when-a-group-resembles-a-definition:" + "+".join(sorted(set((a - b) | (b - a)))),
                f"{case['version']}: {case['a']!r} -> {dict(a)}; {case['b']!r} -> {dict(b)}")
    return out


def warmup(tier):
    for v in (QUICK if tier == "quick" else ALL):
        hedenv.schema(v)
        gen_hed.pool(v)


def parts(tier):
    versions = QUICK if tier == "quick" else ALL
    return [Part("rewrite", oracle, strategy=strategy(versions), n=4000 if tier == "quick" else 96000),
            Part("spacing-of-delimiter-faults", oracle_spacing, strategy=spacing_strategy(versions),
                 n=800 if tier == "quick" else 24000),
            Part("repeat-among-bystanders", oracle_repeat, strategy=repeat_strategy(versions),
                 n=600 if tier == "quick" else 24000),
            Part("definition-twin", oracle_twin, strategy=twin_strategy(versions), n=300 if tier == "quick" else 8000)]
