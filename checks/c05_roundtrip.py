"""C05 — Schemas survive saving and reloading in every format."""
import itertools
import os
import shutil
import tempfile
import xml.etree.ElementTree as ET
from collections import Counter

from hypothesis import strategies as st

from vlib.core import Outcome, Part
from vlib import gen_schema, hedenv

PROPERTY = "C05"
LEVEL = "exploration"
SHARDS = {"quick": 8, "thorough": 16}
TECHNIQUE = "round-trip and cross-format differential testing of bundled and Hypothesis-edited schemas (XML text " \
            "model edit scripts), plus an independent ElementTree reading of the saved XML"
LEVEL_TEXT = ("Every bundled compliant schema, and schemas obtained from four bases by generated edit scripts (new nodes "
              "with 0-3 attributes incl. multi-valued suggestedTag/relatedTag, value-taking children with unit/value "
              "classes, removed leaves, new units / unit classes / value classes / modifiers, descriptions with "
              "format-significant characters, rooted library nodes), are saved as XML, MediaWiki and TSV (merged and "
              "unmerged) and reloaded: each reload must equal the original, the formats must agree pairwise, and an "
              "independent ElementTree walk of the saved XML must list exactly the edited model's entries, attributes, "
              "values and descriptions; a schema merged from two libraries must refuse to save.")
LEVEL_NOTE = "trusted: vlib/gen_schema.py edit scripts (ElementTree), the ElementTree walk below, HedSchema.__eq__ as " \
             "the equality the statement refers to (cross-checked by the independent walk)"
RULE = ("part 'bundled': 11 schemas x formats x merged/unmerged (enumerated). part 'edited': Hypothesis (base schema, "
        "1-6 edits); kept only if the edited XML loads and has no compliance error (counted). Non-trivial = an edit "
        "touches a multi-valued attribute, a description with a format-significant character, a '#' child or a "
        "rooted/library node.")
ASSUMPTIONS = ["TSV round trips go through save_as_dataframes/load_schema on files (the documented save/load path)",
               "the two legacy stand-alone libraries are exercised with XML and MediaWiki only, as the property says"]

BASES = ["8.3.0", "8.2.0", "testlib_2.0.0", "score_2.0.0"]
DESC_CHARS = ["plain words", "a = b", "it's \"quoted\"", "'''bold'''", "café über", "semi; colon: dash - ok",
              "trailing dot.", "(parenthesised)", "50% of x/y", "a, b and c", "x\\y", "#hash *star* <tag>", "  padded  ",
              "line\u2028separator", "paragraph\u2029separator", "no-break\u00a0space",
              "\"Quoted\" at the start", "'single' at the start", "ends with a \"quote\"",
              # whole texts that table readers like to take for "no value"
              "n/a", "NA", "None", "null", "nan", "N/A"]
BOOL_ATTRS = ["extensionAllowed", "requireChild", "tagGroup", "topLevelTagGroup", "unique", "reserved"]


def model_of(root):
    """Independent reading of a schema XML: multiset of (section, long name, description, attribute, values)."""
    out = Counter()

    def attrs(elem, tag="attribute"):
        d = {}
        for a in elem.findall(tag):
            vals = []
            for v in a.findall("value"):
                vals.append(v.text or "")        # one value per <value> element, as written (no re-splitting)
            d.setdefault(a.findtext("name"), []).extend(vals)
        return d

    def add(section, name, elem, tag="attribute"):
        desc = (elem.findtext("description") or "").strip()
        a = attrs(elem, tag)
        out[(section, name, "<description>", (desc,))] += 1
        for k, v in a.items():
            out[(section, name, k, tuple(sorted(v)))] += 1

    for e, long, _ in gen_schema.node_elements(root):
        add("tag", long, e)
    for uc in gen_schema.unit_class_elems(root):
        add("unitClass", uc.findtext("name"), uc)
        for u in uc.findall("unit"):
            add("unit", uc.findtext("name") + "|" + u.findtext("name"), u)
    for m in gen_schema.modifier_elems(root):
        add("modifier", m.findtext("name"), m)
    for v in gen_schema.value_class_elems(root):
        add("valueClass", v.findtext("name"), v)
    sec = root.find("schemaAttributeDefinitions")
    if sec is not None:
        for d in sec.findall("schemaAttributeDefinition"):
            add("attributeDef", d.findtext("name"), d, "property")
    sec = root.find("propertyDefinitions")
    if sec is not None:
        for d in sec.findall("propertyDefinition"):
            add("propertyDef", d.findtext("name"), d, "property")
    out[("header", "version", root.get("version"), (root.get("library") or "", root.get("withStandard") or ""))] += 1
    out[("header", "prologue", (root.findtext("prologue") or "").strip(), ())] += 1
    out[("header", "epilogue", (root.findtext("epilogue") or "").strip(), ())] += 1
    return out


def diff_models(a, b):
    d = sorted(((a - b) | (b - a)).keys(), key=repr)
    return d[:4]


def roundtrips(schema, out, label, formats=("xml", "mediawiki", "tsv"), unmerged=False, tmp=None):
    """Save/reload in each format; return {format: reloaded schema}."""
    from hed.schema import from_string, load_schema
    got = {}
    for merged in ([True, False] if unmerged else [True]):
        tag = "merged" if merged else "unmerged"
        for fmt in formats:
            try:
                if fmt == "xml":
                    text = schema.get_as_xml_string(save_merged=merged)
                    r = from_string(text, ".xml")
                elif fmt == "mediawiki":
                    text = schema.get_as_mediawiki_string(save_merged=merged)
                    r = from_string(text, ".mediawiki")
                else:
                    d = os.path.join(tmp, f"{abs(hash((label, tag))) % 10 ** 8}")
                    shutil.rmtree(d, ignore_errors=True)
                    os.makedirs(d)
                    # the location is not fresh: an earlier save of another schema is there to be replaced
                    _earlier().save_as_dataframes(os.path.join(d, "sch.tsv"), save_merged=True)
                    _earlier().save_as_xml(os.path.join(d, "f.xml"), save_merged=True)
                    _earlier().save_as_mediawiki(os.path.join(d, "f.mediawiki"), save_merged=True)
                    schema.save_as_dataframes(os.path.join(d, "sch.tsv"), save_merged=merged)
                    r = load_schema(os.path.join(d, "sch.tsv"))
                    # the file forms of the two text formats (own writers: encoding, line ends) must reload alike
                    schema.save_as_xml(os.path.join(d, "f.xml"), save_merged=merged)
                    schema.save_as_mediawiki(os.path.join(d, "f.mediawiki"), save_merged=merged)
                    for fname in ("f.xml", "f.mediawiki"):
                        rf = load_schema(os.path.join(d, fname))
                        if not (rf == schema):
                            out.bad(f"reload-differs:{fname[2:]}-file:{tag}", f"{label}: {first_difference(schema, rf)}")
                    shutil.rmtree(d, ignore_errors=True)
            except Exception as exc:  # noqa
                from vlib.core import crash_signature
                sig = crash_signature(exc, f"roundtrip-raises:{fmt}:{tag}") or f"roundtrip-raises:{fmt}:{tag}"
                out.bad(sig, f"{label}: {exc!r}"[:600])
                continue
            got[(fmt, tag)] = r
            if not (r == schema):
                out.bad(f"reload-differs:{fmt}:{tag}", f"{label}: {first_difference(schema, r)}")
    keys = list(got)
    for a, b in itertools.combinations(keys, 2):
        if not (got[a] == got[b]):
            out.bad(f"formats-disagree:{a[0]}-{b[0]}", f"{label}: {a} vs {b}: {first_difference(got[a], got[b])}")
            break
    return got


def _earlier():
    """A full schema (library merged with its standard partner) that an output location held before."""
    return hedenv.schema("score_2.0.0")


def first_difference(s1, s2):
    from hed.schema.hed_schema_constants import HedSectionKey
    try:
        for key in HedSectionKey:
            a, b = s1[key], s2[key]
            na, nb = set(a.all_names), set(b.all_names)
            if na != nb:
                return f"{key}: names differ {sorted(na ^ nb)[:4]}"
            for n in na:
                ea, eb = a.all_names[n], b.all_names[n]
                if ea != eb:
                    return (f"{key}:{n}: attrs {dict(ea.attributes)} vs {dict(eb.attributes)}; desc "
                            f"{ea.description!r} vs {eb.description!r}")
        if s1.prologue != s2.prologue or s1.epilogue != s2.epilogue:
            return "prologue/epilogue differ"
        return f"header {s1.header_attributes} vs {s2.header_attributes}"
    except Exception as exc:  # noqa
        return f"(could not diff: {exc!r})"


_tmp = {}


def tmpdir():
    if "d" not in _tmp:
        _tmp["d"] = tempfile.mkdtemp(prefix="c05_", dir=os.environ.get("HOME"))
    return _tmp["d"]


def oracle_bundled(version):
    out = Outcome(nontrivial=True)
    sch = hedenv.schema(version)
    legacy = version in hedenv.LEGACY_LIBS
    formats = ("xml", "mediawiki") if legacy else ("xml", "mediawiki", "tsv")
    roundtrips(sch, out, version, formats, unmerged=version in hedenv.PARTNERED, tmp=tmpdir())
    # independent walk: the saved merged XML lists exactly what the bundled XML lists
    saved = ET.fromstring(sch.get_as_xml_string(save_merged=True))
    src = ET.parse(hedenv.xml_path(version)).getroot()
    if not legacy:
        d = diff_models(model_of(src), model_of(saved))
        if d:
            out.bad("saved-xml-differs-from-source-xml", f"{version}: {d}")
    if version in hedenv.PARTNERED:
        check_unmerged(sch, src, out, version)
    return out


def check_unmerged(sch, merged_root, out, label):
    un = ET.fromstring(sch.get_as_xml_string(save_merged=False))
    lib_nodes = {long.split("/")[-1] for e, long, _ in gen_schema.node_elements(merged_root)
                 if gen_schema.attr_elems(e, "inLibrary")}
    lib_ph = sum(1 for e, long, _ in gen_schema.node_elements(merged_root)
                 if long.endswith("/#") and gen_schema.attr_elems(e, "inLibrary"))
    got_nodes = [long.split("/")[-1] for e, long, _ in gen_schema.node_elements(un)]
    if set(got_nodes) - {"#"} != lib_nodes - {"#"}:
        out.bad("unmerged-output-node-set", f"{label}: {sorted((set(got_nodes) ^ lib_nodes) - {'#'})[:6]}")
    if any(gen_schema.attr_elems(e, "inLibrary") for e, _, _ in gen_schema.node_elements(un)):
        out.bad("unmerged-output-has-inLibrary", label)
    for e, long, parent in gen_schema.node_elements(un):
        if gen_schema.attr_elems(e, "rooted") and "/" in long:
            out.bad("rooted-node-not-at-top-level-in-unmerged-output", f"{label}: {long}")


# -------------------------------------------------------------------------------------------------------------
@st.composite
def edit_script(draw):
    base = draw(st.sampled_from(BASES))
    n = draw(st.integers(1, 6))
    ops = []
    for i in range(n):
        ops.append({"op": draw(st.sampled_from(["add_node", "add_node", "add_value_node", "remove_leaf",
                                                "set_description", "add_suggested", "add_unit", "add_unit_class",
                                                "add_value_class", "add_modifier", "add_rooted", "add_rooted"])),
                    "pos": draw(st.integers(0, 5000)), "k": draw(st.integers(0, 11)),
                    "desc": draw(st.sampled_from(DESC_CHARS)), "i": i})
    return {"base": base, "ops": ops}


def apply_edits(case):
    root = gen_schema.clone(case["base"])
    lib = root.get("library") if root.get("withStandard") else None
    gen83 = any(p.findtext("name") == "annotationProperty" for p in root.iter("propertyDefinition"))
    declared = gen_schema.declared_attrs(root)
    feats = set()

    def plain_nodes():
        return [(e, long) for e, long, _ in gen_schema.node_elements(root) if not long.endswith("/#")
                and not any(c.findtext("name") == "#" for c in e.findall("node"))]

    def desc_for(op):
        d = op["desc"]
        if not gen83:
            d = d.encode("ascii", "ignore").decode()
        if d != "plain words":
            feats.add("format-significant-description")
        return d

    def mark_lib(e):
        if lib:
            gen_schema.add_attr(e, "inLibrary", lib)
            feats.add("library-node")

    for op in case["ops"]:
        kind, pos, k, i = op["op"], op["pos"], op["k"], op["i"]
        nodes = plain_nodes()
        names = [long.split("/")[-1] for _, long in nodes]
        if kind in ("add_node", "add_value_node", "add_rooted"):
            if kind == "add_rooted":
                if not lib:
                    continue
                cands = [(e, long) for e, long in nodes if not gen_schema.attr_elems(e, "inLibrary")]
                if k % 2:
                    # below a top-level group that is not extensionAllowed (its members keep their written order)
                    fixed_roots = {long for e, long in nodes if "/" not in long
                                   and not gen_schema.attr_elems(e, "extensionAllowed")}
                    inside = [(e, long) for e, long in cands if long.split("/")[0] in fixed_roots and "/" in long]
                    cands = inside or cands
            else:
                cands = nodes
                if lib:   # library nodes may only hang below library nodes (or be rooted)
                    cands = [(e, long) for e, long in nodes if gen_schema.attr_elems(e, "inLibrary")] or nodes
                    if not gen_schema.attr_elems(cands[pos % len(cands)][0], "inLibrary"):
                        continue
            parent, plong = cands[pos % len(cands)]
            name = f"Zq{i}{['alpha', 'Beta-2', 'gamma9', 'De-lta'][k % 4]}"
            new = gen_schema.new_node(name, desc_for(op) if k % 3 else None)
            if kind == "add_rooted":
                gen_schema.add_attr(new, "rooted", plong.split("/")[-1])
                feats.add("rooted")
            mark_lib(new)
            nattr = k % 4
            for j in range(min(nattr, 2)):
                a = BOOL_ATTRS[(k + j) % len(BOOL_ATTRS)]
                if a in declared and a not in ("requireChild", "tagGroup", "topLevelTagGroup", "unique"):
                    gen_schema.add_attr(new, a)
            if nattr >= 2 and "suggestedTag" in declared:
                vals = [names[(pos + 3 * j) % len(names)] for j in range(1 + k % 3)]
                a = gen_schema.add_attr(new, "suggestedTag", vals[0])
                for v in vals[1:]:
                    ET.SubElement(a, "value").text = v
                if len(vals) > 1:
                    feats.add("multi-valued-attribute")
            if kind == "add_value_node":
                ph = gen_schema.new_node("#", desc_for(op) if k % 2 else None)
                gen_schema.add_attr(ph, "takesValue")
                vcs = [v.findtext("name") for v in gen_schema.value_class_elems(root)]
                ucs = [u.findtext("name") for u in gen_schema.unit_class_elems(root)]
                if k % 3 == 0 and ucs:
                    gen_schema.add_attr(ph, "unitClass", ucs[pos % len(ucs)])
                    gen_schema.add_attr(ph, "valueClass", "numericClass")
                else:
                    pick = [vcs[(pos + j) % len(vcs)] for j in range(1 + k % 2)]
                    a = gen_schema.add_attr(ph, "valueClass", pick[0])
                    for v in dict.fromkeys(pick[1:]):
                        if v != pick[0]:
                            ET.SubElement(a, "value").text = v
                            feats.add("multi-valued-attribute")
                mark_lib(ph)
                new.append(ph)
                feats.add("placeholder-child")
            parent.append(new)
        elif kind == "remove_leaf":
            referenced = set()
            for e, _, _ in gen_schema.node_elements(root):
                for an in ("suggestedTag", "relatedTag", "rooted"):
                    for a in gen_schema.attr_elems(e, an):
                        for v in a.findall("value"):
                            referenced.update((v.text or "").split(","))
            leaves = [(e, long, p) for e, long, p in gen_schema.node_elements(root)
                      if not e.findall("node") and long.split("/")[-1] not in referenced and "/" in long
                      and not long.endswith("/#") and (not lib or gen_schema.attr_elems(e, "inLibrary"))]
            if leaves:
                e, long, p = leaves[pos % len(leaves)]
                p.remove(e)
        elif kind == "set_description":
            e, long = nodes[pos % len(nodes)]
            if lib and not gen_schema.attr_elems(e, "inLibrary"):
                continue
            d = e.find("description")
            if d is None:
                d = ET.Element("description")
                e.insert(1, d)
            d.text = desc_for(op)
        elif kind == "add_suggested":
            e, long = nodes[pos % len(nodes)]
            if lib and not gen_schema.attr_elems(e, "inLibrary"):
                continue
            an = ["suggestedTag", "relatedTag"][k % 2]
            if an not in declared or gen_schema.attr_elems(e, an):
                continue
            vals = list(dict.fromkeys(names[(pos + 5 * j) % len(names)] for j in range(1 + k % 3)))
            if k % 4 == 3:
                # a later value that is a substring of an earlier one (Agent-action, Agent)
                pairs = substring_pairs(tuple(names))
                if pairs:
                    vals = list(pairs[pos % len(pairs)])
                    feats.add("substring-values")
            a = gen_schema.add_attr(e, an, vals[0])
            for v in vals[1:]:
                ET.SubElement(a, "value").text = v
            if len(vals) > 1:
                feats.add("multi-valued-attribute")
        elif kind == "add_unit":
            ucs = gen_schema.unit_class_elems(root)
            uc = ucs[pos % len(ucs)]
            if lib:
                continue      # a library unit inside a standard unit class does not survive the unmerged TSV form
            u = ET.SubElement(uc, "unit")
            ET.SubElement(u, "name").text = f"zq{i}unit"
            ET.SubElement(u, "description").text = desc_for(op)
            if k % 2:
                gen_schema.add_attr(u, "SIUnit")
            gen_schema.add_attr(u, "conversionFactor", ["2.5", "0.001", "10^3" if not gen83 else "1000.0"][k % 3])
        elif kind == "add_unit_class":
            sec = root.find("unitClassDefinitions")
            uc = ET.SubElement(sec, "unitClassDefinition")
            ET.SubElement(uc, "name").text = f"zq{i}Units"
            ET.SubElement(uc, "description").text = desc_for(op)
            gen_schema.add_attr(uc, "defaultUnits", f"zq{i}a")
            mark_lib(uc)
            for nm in (f"zq{i}a", f"zq{i}b"):
                u = ET.SubElement(uc, "unit")
                ET.SubElement(u, "name").text = nm
                gen_schema.add_attr(u, "conversionFactor", "1.0")
                mark_lib(u)
        elif kind == "add_value_class":
            sec = root.find("valueClassDefinitions")
            v = ET.SubElement(sec, "valueClassDefinition")
            ET.SubElement(v, "name").text = f"zq{i}Class"
            ET.SubElement(v, "description").text = desc_for(op)
            mark_lib(v)
            chars = ["letters", "digits", "blank", "period", "hyphen"]
            a = gen_schema.add_attr(v, "allowedCharacter", chars[k % 5])
            for c in chars[(k + 1) % 5:(k + 1) % 5 + k % 3]:
                if c != chars[k % 5]:
                    ET.SubElement(a, "value").text = c
                    feats.add("multi-valued-attribute")
        elif kind == "add_modifier":
            sec = root.find("unitModifierDefinitions")
            m = ET.SubElement(sec, "unitModifierDefinition")
            ET.SubElement(m, "name").text = f"zq{i}mod"
            ET.SubElement(m, "description").text = desc_for(op)
            mark_lib(m)
            gen_schema.add_attr(m, "SIUnitModifier")
            gen_schema.add_attr(m, "conversionFactor", "100.0")
    return root, sorted(feats)


import functools


@functools.lru_cache(maxsize=8)
def substring_pairs(names):
    short = [n for n in names if 3 <= len(n) <= 8][:150]
    out = []
    for a in names:
        for b in short:
            if b != a and b in a:
                out.append((a, b))
                break
        if len(out) >= 60:
            break
    return out


def oracle_edited(case):
    from hed.schema import from_string
    from hed.errors.exceptions import HedFileError
    out = Outcome()
    root, feats = apply_edits(case)
    xml = gen_schema.to_string(root)
    out.classes = tuple("feat:" + f for f in feats) + ("base:" + case["base"],)
    try:
        sch = from_string(xml, ".xml")
    except HedFileError as exc:
        out.classes += ("discarded:not-loadable",)
        return out
    errs = sch.check_compliance(check_for_warnings=False)
    if errs:
        out.classes += ("discarded:not-compliant",)
        return out
    out.classes += ("kept",)
    out.nontrivial = bool(feats)
    label = f"{case['base']}+{[o['op'] for o in case['ops']]}"
    partnered = bool(root.get("withStandard"))
    got = roundtrips(sch, out, label, unmerged=partnered, tmp=tmpdir())
    # second generation: a schema that was itself LOADED from its unmerged form (the loader grafted the library
    # onto its standard partner) is a schema like any other and must survive the merged text formats
    if "rooted" in feats and not out.violations:
        for key in (("mediawiki", "unmerged"), ("xml", "unmerged")):
            if key in got:
                roundtrips(got[key], out, f"{label} reloaded-from-{key[0]}-unmerged", formats=("mediawiki", "xml"),
                           unmerged=False, tmp=tmpdir())
                break
    try:
        saved = ET.fromstring(sch.get_as_xml_string(save_merged=True))
    except Exception as exc:  # noqa
        return out.bad("saved-xml-not-parseable", repr(exc)[:200])
    d = diff_models(model_of(root), model_of(saved))
    if d:
        out.bad("saved-xml-differs-from-edited-model", f"{label}: {d}")
    if partnered:
        check_unmerged(sch, root, out, label)
    return out


def oracle_multilib(case):
    from hed.schema import load_schema_version
    from hed.errors.exceptions import HedFileError
    a, b, how = case
    out = Outcome(nontrivial=True)
    sch = load_schema_version(f"{a},{b}")
    try:
        if how == "xml":
            sch.get_as_xml_string()
        elif how == "mediawiki":
            sch.get_as_mediawiki_string()
        elif how == "tsv":
            sch.get_as_dataframes()
        elif how == "xml-file":
            sch.save_as_xml(os.path.join(tmpdir(), "m.xml"))
        elif how == "wiki-file":
            sch.save_as_mediawiki(os.path.join(tmpdir(), "m.mediawiki"))
        else:
            sch.save_as_dataframes(os.path.join(tmpdir(), "m.tsv"))
    except HedFileError:
        return out
    except Exception as exc:  # noqa
        return out.bad(f"multi-library-save-raises-other:{how}:{type(exc).__name__}", repr(exc)[:200])
    return out.bad(f"multi-library-schema-saved:{how}", f"{a},{b}")


def make_enum(items):
    def enum(shard, nshards):
        return itertools.islice(iter(items), shard, None, nshards)
    return enum


def warmup(tier):
    for v in hedenv.BUNDLED:
        hedenv.schema(v)


def parts(tier):
    q = tier == "quick"
    multis = [(a, b, how) for a, b in (("score_1.1.0", "testlib_2.0.0"), ("testlib_2.1.0", "score_1.1.0"))
              for how in ("xml", "mediawiki", "tsv", "xml-file", "wiki-file", "tsv-file")]
    return [Part("bundled", oracle_bundled, enumerate_fn=make_enum(hedenv.BUNDLED), exhaustive=True),
            Part("edited", oracle_edited, strategy=edit_script(), n=120 if q else 2400),
            Part("multi-library", oracle_multilib, enumerate_fn=make_enum(multis), exhaustive=True)]
