"""C07 — File-level validation equals row-by-row string validation, with true locations."""
import copy
import io
import re
import json
from collections import Counter

from hypothesis import strategies as st

from vlib.core import Outcome, Part
from vlib import gen_hed, gen_tab, hedenv

PROPERTY = "C07"
LEVEL = "exploration"
SHARDS = {"quick": 8, "thorough": 16}
TECHNIQUE = "Hypothesis tables over generated sidecars; differential oracle (file validation vs string validation " \
            "of the reference-assembled row) + metamorphic row permutation"
LEVEL_TEXT = ("Generated events tables (1-3 HED-bearing columns incl. curly-brace references, valid and single-fault "
              "cells, Duration/Delay groups in every accepted unit spelling, valid Onset/Offset/Inset histories, n/a) "
              "are validated; per error-free row the ERROR codes at that row must equal those of string validation of "
              "the independently assembled row (per effective time point for Delay groups), per faulty row they must "
              "contain every cell's errors, labels must be the 1-based file row and the source column, and a generated "
              "row permutation must only relabel rows and add one ONSETS_UNORDERED warning.")
LEVEL_NOTE = "trusted: vlib/gen_tab.py reference assembler; HedString.validate as the string-level side of the " \
             "differential (its own correctness is C01's business)"
RULE = ("part 'spreadsheets': SpreadsheetInput over TSV text or a generated .xlsx file with 1-3 tag columns (by name or "
        "number) and an optional prefix column. part 'files': "
        "Hypothesis: sidecar (1-3 columns) + table of 2-6 rows with a HED column; cell faults from the C01 mutators; "
        "modes: onset/no-onset/degenerate onsets (equal, n/a: totality only)/missing referenced column. Non-trivial = "
        ">=2 rows and (an invalid cell, or a temporal marker, or a reference, or a Duration/Delay group); permutation "
        "clause counted when the permutation is not the identity.")
ASSUMPTIONS = ["TSV text input through TabularInput (the documented reader maps empty fields to n/a)",
               "row equality, labels and shuffle clauses use distinct numeric onsets; delays are chosen so that no two "
               "effective time points coincide", "schema 8.3.0; definitions supplied as extra_def_dicts"]

VERSION = "8.3.0"
DEFS = ["(Definition/DefA, (Item-count/3))", "(Definition/DefB, (Blue))", "(Definition/DefC/#, (Temperature/# oC))"]
RESERVED = ["Item-count", "Blue", "Temperature"]
DURATION_UNITS = None
# codes that only the per-cell (basic) checks produce: these must carry the column label. TAG_EMPTY is produced both by
# the delimiter check (cell level) and by the empty-group rule (row level), so it is not in the list.
CELL_LEVEL_CODES = {"TAG_INVALID", "TAG_EXTENSION_INVALID", "UNITS_INVALID", "VALUE_INVALID", "CHARACTER_INVALID",
                    "PARENTHESES_MISMATCH", "COMMA_MISSING", "TAG_REQUIRES_CHILD", "PLACEHOLDER_INVALID",
                    "TILDES_UNSUPPORTED"}


def _duration_units():
    global DURATION_UNITS
    if DURATION_UNITS is None:
        from checks.c11_units import table, positives
        tb = table(VERSION)
        node = tb.m.by_short["duration"][0]
        DURATION_UNITS = sorted({p[0] for p in positives(tb, node)})
    return DURATION_UNITS


@st.composite
def strategy(draw):
    pl = gen_hed.pool(VERSION)
    used = {pl.m.by_short[n.casefold()][0].long for n in RESERVED}
    mode = draw(st.sampled_from(["onset", "onset", "onset", "noonset", "degenerate", "missingref"]))
    spec = draw(gen_tab.sidecar_spec(VERSION, 1, 3, used=used, hed_column=False))   # no {HED} refs: see C06
    table = draw(gen_tab.table_for(spec, VERSION, used, min_rows=2, max_rows=6, hed_column=True,
                                   onset=(mode != "noonset"), empty_cells=False))
    header, rows = table["header"], table["rows"]
    hidx = header.index("HED")
    open_defs = set()
    features = set()
    faulty_rows = []
    for r, row in enumerate(rows):
        extras = []
        roll = draw(st.integers(0, 9))
        if mode in ("onset", "degenerate") and roll <= 3:
            name = draw(st.sampled_from(["DefA", "DefB", "DefC/4", "DefC/5.5"]))
            spelled = draw(st.sampled_from([name, name.lower(), name.upper()]))
            if name in open_defs:
                kind = draw(st.sampled_from(["Offset", "Inset", "Onset"]))
            else:
                kind = "Onset"
            delayed = ""
            if draw(st.integers(0, 2)) == 0:     # a Delay-shifted marker: takes effect at onset + delay
                delayed = "Delay/" + ["0.1", "0.2", "0.3", "0.4", "0.7", "0.9"][r % 6] + " s, "
                features.add("delay")
            if kind == "Offset":
                open_defs.discard(name)
                extras.append(f"({delayed}{kind}, Def/{spelled})")
            elif delayed:
                open_defs.add(name)
                extras.append(f"({delayed}{kind}, Def/{spelled})")
            else:
                open_defs.add(name)
                inner = draw(gen_tab.template(VERSION, used, max_depth=0, max_children=2))
                extras.append(f"(Def/{spelled}, {kind}, ({gen_hed.render(inner)}))" if draw(st.booleans())
                              else f"({kind}, Def/{spelled})")
            features.add("temporal")
        if mode in ("onset", "degenerate") and roll in (4, 5):
            unit = draw(st.sampled_from(_duration_units()))
            num = draw(st.sampled_from(["3", "0.5", "12", "2.5e1"]))
            inner = draw(gen_tab.template(VERSION, used, max_depth=0, max_children=2))
            extras.append(f"(Duration/{num} {unit}, ({gen_hed.render(inner)}))")
            features.add("duration")
        if mode in ("onset", "degenerate") and roll == 6:
            d = ["0.1", "0.2", "0.3", "0.4", "0.7", "0.9"][r % 6]
            unit = draw(st.sampled_from(["s", "second", "Seconds", "SECOND"]))
            inner = draw(gen_tab.template(VERSION, used, max_depth=0, max_children=2))
            extras.append(f"(Delay/{d} {unit}, ({gen_hed.render(inner)}))")
            features.add("delay")
        if mode in ("onset", "degenerate") and any("Delay/" in e for e in extras) and draw(st.booleans()):
            # a second group of the same row shifted by another amount
            d2 = ["0.15", "0.25", "0.35", "0.45", "0.75", "0.95"][r % 6]
            inner = draw(gen_tab.template(VERSION, used, max_depth=0, max_children=2))
            extras.append(f"(Delay/{d2} s, ({gen_hed.render(inner)}))")
            features.add("two-delays-in-row")
        if roll == 9 and mode != "missingref":
            # a timing tag whose value is not a number: an ordinary value fault, to be reported like any other
            bad = draw(st.sampled_from(["Delay/abc s", "Delay/ s", "Delay/1 s ms", "Duration/x", "Delay/1e s",
                                        "Duration/3 parsecs", "Delay/--2 s"]))
            inner = draw(gen_tab.template(VERSION, used, max_depth=0, max_children=2))
            row[hidx] = f"({bad}, ({gen_hed.render(inner)}))"
            features.add("fault:timing-value")
            faulty_rows.append(r)
            extras = []
        if roll == 7:
            ann = draw(gen_hed.annotation(VERSION, allow_placeholder=False, max_depth=1, with_defs=False,
                                          specials=False, used=used, max_children=2))
            kinds = [k for k in gen_hed.TREE_MUTATIONS + gen_hed.TEXT_MUTATIONS
                     if not k.startswith(("def", "taggroup", "toplevel", "onset", "offset", "duration", "unique",
                                          "definition", "placeholder"))]
            mut = draw(gen_hed.mutated(ann, kinds=kinds, start=draw(st.integers(0, len(kinds) - 1))))
            row[hidx] = mut["text"] if mut["text"] is not None else gen_hed.render(mut["tree"])
            features.add("fault:" + str(mut["mutation"]))
            faulty_rows.append(r)
            extras = []
        if roll == 8:
            vcols = [h for h in header if spec["columns"].get(h, {}).get("kind") == "value"
                     and h not in gen_tab.all_refs(spec)]
            if vcols:
                vc = draw(st.sampled_from(vcols))
                row[header.index(vc)] = draw(st.sampled_from(["a[b", "x]", "p~q"]))   # forbidden character in a value
                features.add("fault:value-cell")
                faulty_rows.append(r)
        if extras:
            base = row[hidx]
            row[hidx] = ", ".join(([base] if base not in ("n/a", "") else []) + extras)
        row[hidx] = row[hidx].replace('"', "q")
    for row in rows:
        for i, c in enumerate(row):
            row[i] = c.replace('"', "q").replace("\t", " ")
    if mode == "degenerate":
        oi = header.index("onset")
        for r, row in enumerate(rows):
            row[oi] = draw(st.sampled_from([row[oi], "n/a", rows[0][oi], "abc"]))
    if mode == "missingref":
        refs = sorted(gen_tab.all_refs(spec) & set(header) - {"HED"})
        if refs:
            drop = header.index(refs[0])
            header.pop(drop)
            for row in rows:
                row.pop(drop)
            features.add("dropped:" + refs[0])
        else:
            mode = "onset"
    perm = list(draw(st.permutations(list(range(len(rows))))))
    return {"spec": spec, "table": table, "mode": mode, "perm": perm, "features": sorted(features),
            "faulty_rows": faulty_rows, "form": draw(st.sampled_from(["text", "text", "frame"]))}


_dd = {}


def def_dict():
    from hed.models.definition_dict import DefinitionDict
    if "dd" not in _dd:
        _dd["dd"] = DefinitionDict(DEFS, hedenv.schema(VERSION))
        assert len(_dd["dd"].defs) == 3
    return _dd["dd"]


def validate_file(spec, header, rows):
    from hed.models.sidecar import Sidecar
    from hed.models.tabular_input import TabularInput
    doc = gen_tab.sidecar_json(spec)
    sidecar = Sidecar(io.StringIO(json.dumps(doc)), name="sc")
    if _FORM["form"] == "frame":
        # the same table handed over as a DataFrame: own row labels, missing cells as None instead of the text n/a
        import pandas as pd
        data = [[(None if (c == "n/a" and h != "onset") else c) for h, c in zip(header, row)] for row in rows]
        frame = pd.DataFrame(data, columns=header, index=[5 + 3 * i for i in range(len(rows))])
        tab = TabularInput(frame, sidecar=sidecar, name="tab")
    else:
        tab = TabularInput(io.StringIO(gen_tab.to_tsv({"header": header, "rows": rows})), sidecar=sidecar, name="tab")
    before = tab.dataframe.copy(deep=True)
    first = tab.validate(hedenv.schema(VERSION), extra_def_dicts=def_dict(), name="tab")
    # asked again, the same object gives the same answer, and validation leaves the table as it was
    second = tab.validate(hedenv.schema(VERSION), extra_def_dicts=def_dict(), name="tab")
    k1, k2 = sorted(map(_stable_key, first)), sorted(map(_stable_key, second))
    if k1 != k2:
        raise Unstable(f"first {k1[:6]} second {k2[:6]}")
    if not before.astype(object).equals(tab.dataframe.astype(object)) or list(before.index) != list(tab.dataframe.index):
        raise Unstable("table changed by validation")
    # one validator object used for a file that leaves every definition's event open, then for this file: the verdict
    # on this file must not depend on what the validator saw before
    from hed.validator.spreadsheet_validator import SpreadsheetValidator
    reused = SpreadsheetValidator(hedenv.schema(VERSION))
    names = [e.name for e in def_dict().defs.values() if not e.takes_value]
    primer_text = "onset\tduration\tHED\n" + "".join(f"{1.0 + i}\tn/a\t(Def/{n}, Onset)\n" for i, n in enumerate(names))
    primer = TabularInput(io.StringIO(primer_text), name="primer")
    reused.validate(primer, def_dict(), "primer")
    third = reused.validate(tab, tab._mapper.get_def_dict(hedenv.schema(VERSION), def_dict()), "tab")
    k3 = sorted(map(_stable_key, third))
    if k1 != k3:
        raise Unstable(f"fresh validator {k1[:6]} validator that validated another file before {k3[:6]}")
    return first


_FORM = {"form": "text"}


class Unstable(Exception):
    pass


def _stable_key(i):
    return (i["code"], i["severity"], str(i.get("ec_row")), str(i.get("ec_column")), str(i.get("source_tag")))


def string_errors(text):
    from hed.models import HedString
    hs = HedString(text, hedenv.schema(VERSION), def_dict=def_dict())
    return Counter(i["code"] for i in hs.validate(allow_placeholders=False) if i["severity"] == 1)


def render_tree(tree):
    parts = []
    for x in tree:
        parts.append("(" + render_tree(x) + ")" if isinstance(x, list) else x)
    return ", ".join(parts)


def split_delays(tree):
    """Reference splitter: top-level groups holding a Delay tag take effect at their own time point."""
    rest, delayed = [], []
    for x in tree:
        if isinstance(x, list) and any(isinstance(t, str) and t.casefold().startswith("delay/") for t in x):
            delayed.append(x)
        else:
            rest.append(x)
    return rest, delayed


def column_texts(spec, header, row):
    """Per assembled column (after reference splicing): {column: tree}."""
    cols = dict(spec["columns"])
    cols["HED"] = {"kind": "hed"}
    referenced = gen_tab.all_refs(spec) & set(header)
    cells = dict(zip(header, row))
    contribs = {n: gen_tab.contribution(cs, cells[n]) for n, cs in cols.items()
                if n in cells and cs["kind"] != "ignored"}
    out = {}
    for name in header:
        if name in contribs and name not in referenced and contribs[name] is not None:
            out[name] = gen_tab.resolve(contribs[name], contribs)
    return out


def issue_key(i, rowmap=None):
    row = i.get("ec_row")
    if rowmap is not None and row is not None:
        row = rowmap.get(row, ("?", row))
    return (i["code"], row, i.get("ec_column"))


def oracle(case):
    out = Outcome()
    spec, t, mode = case["spec"], case["table"], case["mode"]
    header, rows = t["header"], t["rows"]
    feats = set(case["features"])
    refs = gen_tab.all_refs(spec) & set(header)
    out.nontrivial = len(rows) >= 2 and bool(feats or refs)
    out.classes = tuple(sorted({"mode:" + mode} | {f.split(":")[0] for f in feats} | ({"refs"} if refs else set())))
    # (1) totality
    _FORM["form"] = case.get("form", "text")
    out.classes += ("form:" + _FORM["form"],)
    try:
        issues = validate_file(spec, header, rows)
    except Unstable as exc:
        return out.bad("file-verdict-depends-on-object-history", f"{exc}; mode={mode} header={header} rows={rows} "
                                                                 f"sidecar={json.dumps(gen_tab.sidecar_json(spec))[:500]}")
    except Exception as exc:  # noqa
        from vlib.core import crash_signature
        sig = crash_signature(exc, "file-validate-raises") or f"file-validate-raises:{type(exc).__name__}"
        return out.bad(sig, f"{exc!r}; mode={mode} header={header} rows={rows} "
                            f"sidecar={json.dumps(gen_tab.sidecar_json(spec))[:500]}")
    ctx = f"mode={mode} header={header} rows={rows} sidecar={json.dumps(gen_tab.sidecar_json(spec))[:600]}"
    if mode == "degenerate":
        return out
    if mode == "missingref":
        dropped = [f.split(":", 1)[1] for f in feats if f.startswith("dropped:")]
        codes = {i["code"] for i in issues if i["severity"] == 1}
        if dropped and "SIDECAR_BRACES_INVALID" not in codes:
            out.bad("missing-referenced-column-not-reported", f"{sorted(codes)}; {ctx}")
        return out
    by_row = {}
    for i in issues:
        if i["severity"] == 1 and i.get("ec_row") is not None:
            by_row.setdefault(i["ec_row"], []).append(i)
    all_labels_ok = True
    for r, row in enumerate(rows):
        file_row = r + 2
        got = Counter(i["code"] for i in by_row.get(file_row, []))
        cols = column_texts(spec, header, row)
        hedcell = dict(zip(header, row)).get("HED", "n/a")
        # cell-level verdicts: the HED cell is judged on its raw text (delimiter faults do not survive re-rendering)
        cell_errs = {name: string_errors(render_tree(tree)) for name, tree in cols.items() if name != "HED"}
        if hedcell not in ("n/a", ""):
            cell_errs["HED"] = string_errors(hedcell)
        if any(cell_errs.values()):
            # (3) faulty row: at least every error of every cell, labelled with its column
            for name, errs in cell_errs.items():
                col_got = Counter(i["code"] for i in by_row.get(file_row, []) if i.get("ec_column") == name)
                for code in errs:
                    if code not in got:
                        out.bad(f"cell-error-missing:{code}", f"row {file_row} column {name}: expected {dict(errs)} "
                                                              f"got at row {dict(got)}; {ctx}")
                    elif code not in col_got and code in CELL_LEVEL_CODES:
                        # basic (cell-level) errors must carry the column they came from
                        out.bad(f"cell-error-wrong-column:{code}", f"row {file_row} column {name}: "
                                f"{[(i['code'], i.get('ec_column')) for i in by_row.get(file_row, [])]}; {ctx}")
            continue
        # (2) error-free cells: exactly the string-level verdict of the assembled row (per effective time point)
        full = [x for name in header if name in cols for x in cols[name]]
        rest, delayed = split_delays(full) if mode == "onset" else (full, [])
        exp = Counter()
        if rest:
            exp += string_errors(render_tree(rest))
        for g in delayed:
            exp += string_errors(render_tree([g]))
        if mode == "noonset":
            ntemporal = sum(1 for x in _all_tags(full) if x.split("/")[0].casefold() in
                            ("onset", "offset", "inset", "duration", "delay"))
            if ntemporal:
                exp["TEMPORAL_TAG_ERROR"] += ntemporal
        if got != exp:
            diff = sorted(set((got - exp) | (exp - got)))
            out.bad("row-verdict-differs:" + "+".join(diff), f"row {file_row}: file {dict(got)} string-level "
                                                             f"{dict(exp)} for {render_tree(full)!r}; {ctx}")
    # (4) labels: every row label must be an existing file row
    for i in issues:
        if i.get("ec_row") is not None and not (2 <= i["ec_row"] <= len(rows) + 1):
            out.bad("row-label-out-of-range", f"{i['code']} ec_row={i['ec_row']}; {ctx}")
        if i.get("ec_column") is not None and i["ec_column"] not in header:
            out.bad("column-label-unknown", f"{i['code']} ec_column={i['ec_column']!r}; {ctx}")
    # (6) unknown category keys
    exp_missing = Counter()
    for r, row in enumerate(rows):
        for h, c in zip(header, row):
            cs = spec["columns"].get(h)
            if cs and cs["kind"] == "categorical" and c not in ("n/a", "") and c not in cs["entries"]:
                exp_missing[(r + 2, h)] += 1
    got_missing = Counter((i.get("ec_row"), i.get("ec_column")) for i in issues if i["code"] == "SIDECAR_KEY_MISSING")
    if got_missing != exp_missing:
        out.bad("sidecar-key-missing-labels", f"expected {dict(exp_missing)} got {dict(got_missing)}; {ctx}")
    # (5) shuffle: only labels move, plus one ONSETS_UNORDERED warning
    perm = case["perm"]
    if mode == "onset" and perm != sorted(perm):
        out.classes += ("shuffled",)
        prow = [rows[k] for k in perm]
        try:
            pissues = validate_file(spec, header, prow)
        except Exception as exc:  # noqa
            from vlib.core import crash_signature
            sig = crash_signature(exc, "file-validate-raises:shuffled") or "file-validate-raises:shuffled"
            return out.bad(sig, f"{exc!r}; perm={perm} {ctx}")
        rowmap = {pos + 2: perm[pos] + 2 for pos in range(len(perm))}
        a = Counter(issue_key(i) for i in issues)
        b = Counter(issue_key(i, rowmap) for i in pissues)
        b_unordered = b.pop(("ONSETS_UNORDERED", None, None), 0)
        a_unordered = a.pop(("ONSETS_UNORDERED", None, None), 0)
        if a_unordered != 0 or b_unordered != 1:
            out.bad("unordered-warning-count", f"sorted file {a_unordered}, shuffled file {b_unordered}; perm={perm}")
        if a != b:
            diff = sorted(set((a - b) | (b - a)), key=repr)[:6]
            out.bad("shuffle-changes-issues", f"perm={perm} differing {diff}; {ctx}")
    return out


def _all_tags(tree):
    for x in tree:
        if isinstance(x, list):
            yield from _all_tags(x)
        else:
            yield x


# ------------------------------------------------------------------------------------------------------------
# spreadsheet files (SpreadsheetInput): tag columns given by name or number, optional prefix ('value') column
@st.composite
def spreadsheet_case(draw):
    pl = gen_hed.pool(VERSION)
    used = set()
    ncols = draw(st.integers(1, 3))
    names = ["tags_a", "tags_b", "tags_c"][:ncols]
    header = list(names)
    if draw(st.booleans()):
        header.insert(draw(st.integers(0, len(header))), "notes")
    prefix = draw(st.booleans())
    if prefix:
        header.append("label_col")
    rows = []
    for r in range(draw(st.integers(1, 5))):
        row = []
        for h in header:
            if h == "notes":
                row.append(draw(st.sampled_from(["free text", "n/a", "(not, hed"])))
            elif h == "label_col":
                row.append(draw(st.sampled_from(["abc", "x1", "n/a", "a$b"])))
            else:
                m = draw(st.integers(0, 6))
                if m == 0:
                    row.append("n/a")
                elif m == 1:
                    ann = draw(gen_hed.annotation(VERSION, allow_placeholder=False, max_depth=1, with_defs=False,
                                                  specials=False, used=used, max_children=2))
                    kinds = [k for k in gen_hed.TREE_MUTATIONS + gen_hed.TEXT_MUTATIONS
                             if not k.startswith(("def", "taggroup", "toplevel", "onset", "offset", "duration",
                                                  "unique", "definition", "placeholder"))]
                    mut = draw(gen_hed.mutated(ann, kinds=kinds, start=draw(st.integers(0, len(kinds) - 1))))
                    row.append(mut["text"] if mut["text"] is not None else gen_hed.render(mut["tree"]))
                else:
                    row.append(gen_hed.render(draw(gen_tab.template(VERSION, used, max_depth=1, max_children=2))))
        rows.append([c.replace('"', "q").replace("\t", " ") for c in row])
    headerless = draw(st.integers(0, 3)) == 0
    return {"header": header, "rows": rows, "tag_columns": names, "prefix": prefix,
            "by_number": draw(st.booleans()) or headerless, "xlsx": draw(st.integers(0, 3)) == 0,
            "headerless": headerless, "blank_na": draw(st.booleans())}


_EMPTY_BY_COMMA = [re.compile(p) for p in (r",\s*,", r"\(\s*,", r",\s*\)", r"^\s*,", r",\s*$")]
_XLSX_ILLEGAL = re.compile(r"[\000-\010]|[\013-\014]|[\016-\037]")   # openpyxl refuses to write these; such sheets go as TSV


def oracle_spreadsheet(case):
    import os
    import tempfile
    from hed.models.spreadsheet_input import SpreadsheetInput
    out = Outcome()
    header, rows = case["header"], case["rows"]
    tag_cols = [header.index(n) for n in case["tag_columns"]] if case["by_number"] else list(case["tag_columns"])
    pre = None
    if case["prefix"]:
        key = header.index("label_col") if case["by_number"] else "label_col"
        pre = {key: "Label/"}
    headerless = case.get("headerless", False)
    first_row = 1 if headerless else 2          # 1-based file row of the first data row
    colname = (lambda h: header.index(h)) if headerless else (lambda h: h)    # how the library names a column
    ctx = f"header={header} rows={rows} tag_columns={tag_cols} prefix={pre} xlsx={case['xlsx']} headerless={headerless}"
    tmp = None
    try:
        if case["xlsx"] and not any(_XLSX_ILLEGAL.search(c) for r in rows for c in r):
            import openpyxl
            tmp = tempfile.mkdtemp(prefix="c07x_", dir=os.environ.get("HOME"))
            path = os.path.join(tmp, "sheet.xlsx")
            wb = openpyxl.Workbook()
            ws = wb.active
            if not headerless:
                ws.append(header)
            for r in rows:
                # an n/a cell may simply be left empty in a sheet
                # (not in the last column of a sheet without header row: the sheet's width is all that declares it)
                ws.append([(None if (c == "n/a" and case.get("blank_na") and not (headerless and k == len(r) - 1))
                            else c) for k, c in enumerate(r)])
            wb.save(path)
            inp = SpreadsheetInput(path, tag_columns=tag_cols, column_prefix_dictionary=pre, name="sheet",
                                   has_column_names=not headerless)
        else:
            text = gen_tab.to_tsv({"header": header, "rows": rows})
            if headerless:
                text = text.split("\n", 1)[1]
            inp = SpreadsheetInput(io.StringIO(text), file_type=".tsv", has_column_names=not headerless,
                                   tag_columns=tag_cols, column_prefix_dictionary=pre, name="sheet")
        issues = inp.validate(hedenv.schema(VERSION), name="sheet")
    except Exception as exc:  # noqa
        from vlib.core import crash_signature
        sig = crash_signature(exc, "spreadsheet-validate-raises") or f"spreadsheet-validate-raises:{type(exc).__name__}"
        return out.bad(sig, f"{exc!r}; {ctx}")
    finally:
        if tmp:
            import shutil
            shutil.rmtree(tmp, ignore_errors=True)
    by_row = {}
    for i in issues:
        if i["severity"] == 1 and i.get("ec_row") is not None:
            by_row.setdefault(i["ec_row"], []).append(i)
    any_fault = False
    for r, row in enumerate(rows):
        file_row = r + first_row
        got = Counter(i["code"] for i in by_row.get(file_row, []))
        cells = {}
        for h, c in zip(header, row):
            if h in case["tag_columns"] and c not in ("n/a", ""):
                cells[h] = c
            elif h == "label_col" and case["prefix"] and c not in ("n/a", ""):
                cells[h] = "Label/" + c
        # "every error of every cell": the per-cell (basic) checks; row-level rules are not run on faulty rows
        errs = {h: Counter({k: v for k, v in string_errors(c).items() if k in CELL_LEVEL_CODES})
                for h, c in cells.items()}
        full_errs = {h: string_errors(c) for h, c in cells.items()}
        for h, e in full_errs.items():
            # an empty element next to a comma is a delimiter-level fault of the cell itself: the row is not one of
            # "individually error-free" cells. (An empty group '()' is found by a row-level rule instead.)
            if "TAG_EMPTY" in e and any(p.search(cells[h]) for p in _EMPTY_BY_COMMA):
                errs[h]["TAG_EMPTY"] = e["TAG_EMPTY"]
        if any(errs.values()):
            any_fault = True
            for h, e in errs.items():
                col_got = Counter(i["code"] for i in by_row.get(file_row, []) if i.get("ec_column") == colname(h))
                for code in e:
                    if code not in got:
                        out.bad(f"spreadsheet-cell-error-missing:{code}", f"row {file_row} column {h}: {dict(e)} vs "
                                                                         f"{dict(got)}; {ctx}")
                    elif code not in col_got and code in CELL_LEVEL_CODES:
                        out.bad(f"spreadsheet-cell-error-wrong-column:{code}", f"row {file_row} column {h}: "
                                f"{[(i['code'], i.get('ec_column')) for i in by_row.get(file_row, [])]}; {ctx}")
            continue
        if any(full_errs.values()):
            # a cell that is only wrong by a row-level rule (e.g. a repeated tag inside the cell): the row verdict
            # below covers it, since the row is validated as a whole
            pass
        joined = ", ".join(cells[h] for h in header if h in cells)
        exp = string_errors(joined) if joined else Counter()
        if joined:
            # a spreadsheet has no onset column: each timing tag is additionally a TEMPORAL_TAG_ERROR (as in the
            # 'noonset' mode of the events-file part)
            from hed.models import HedString
            ntemporal = sum(1 for t in HedString(joined, hedenv.schema(VERSION)).get_all_tags()
                            if t.short_base_tag.casefold() in ("onset", "offset", "inset", "duration", "delay"))
            if ntemporal:
                exp["TEMPORAL_TAG_ERROR"] += ntemporal
        if got != exp:
            out.bad("spreadsheet-row-verdict-differs:" + "+".join(sorted(set((got - exp) | (exp - got)))),
                    f"row {file_row}: file {dict(got)} string-level {dict(exp)} for {joined!r}; {ctx}")
    for i in issues:
        if i.get("ec_row") is not None and not (first_row <= i["ec_row"] <= len(rows) + first_row - 1):
            out.bad("spreadsheet-row-label-out-of-range", f"{i['code']} ec_row={i['ec_row']}; {ctx}")
    out.nontrivial = len(rows) >= 2 and (any_fault or len(case["tag_columns"]) >= 2)
    out.classes = tuple(c for c, ok in (("xlsx", case["xlsx"]), ("prefix-column", case["prefix"]),
                                        ("columns-by-number", case["by_number"]), ("faulty-cell", any_fault),
                                        ("no-header-row", headerless)) if ok)
    return out


def describe(case):
    if "spec" not in case:
        return case
    return {"sidecar": gen_tab.sidecar_json(case["spec"]), "table": case["table"], "mode": case["mode"],
            "perm": case["perm"], "features": case["features"]}


def warmup(tier):
    hedenv.schema(VERSION)
    gen_hed.pool(VERSION)
    _duration_units()
    def_dict()


def parts(tier):
    return [Part("files", oracle, strategy=strategy(), n=600 if tier == "quick" else 24000, describe=describe),
            Part("spreadsheets", oracle_spreadsheet, strategy=spreadsheet_case(), n=300 if tier == "quick" else 12000,
                 describe=describe)]
