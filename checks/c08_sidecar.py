"""C08 — Sidecar validation is total and flags each structural fault."""
import copy
import io
import json

from hypothesis import strategies as st

from vlib.core import Outcome, Part
from vlib import fuzz, gen_hed, gen_tab, hedenv

PROPERTY = "C08"
LEVEL = "exploration"
SHARDS = {"quick": 8, "thorough": 16}
TECHNIQUE = "Hypothesis: arbitrary JSON documents (totality), grammar-built valid sidecars, single structural-fault " \
            "injection with the rule's code as oracle"
LEVEL_TEXT = ("(i) any JSON object of column values (scalars/lists/objects to depth 3 with HED-like keys and strings) "
              "must validate to a list of well-formed issues without raising; (ii) sidecars assembled from valid "
              "annotations obeying every structural rule must have no ERROR; (iii) each of 14 injected structural "
              "faults must draw an ERROR with that rule's code.")
LEVEL_NOTE = ("trusted: vlib/gen_tab.py (what a structurally valid sidecar is), the fault->code table below; for the "
              "'HED entries are strings or string-valued maps' rule hed-python uses its own codes "
              "(wrongHedDataType, sidecarUnknownColumn, blankValueString) next to SIDECAR_INVALID: any of them is "
              "accepted as that rule's code")
RULE = ("part 'json': Hypothesis recursive JSON values under 1-3 column keys; part 'valid': 1-4 columns "
        "(categorical/value/ignored, 0-2 referencing columns, optional extra BIDS keys); part 'fault': a valid sidecar "
        "with exactly one structural fault. Non-trivial: json = some column value is not a dict of dict of str; "
        "valid/fault = >=2 columns or a curly-brace reference.")
ASSUMPTIONS = ["the sidecar document itself is a JSON object (BIDS); other top-level types are out of the statement",
               "schema 8.3.0; annotations inside the sidecar use no Def/temporal tags (those are C01/C09/C10)"]

VERSION = "8.3.0"
TYPE_CODES = {"SIDECAR_INVALID", "wrongHedDataType", "sidecarUnknownColumn", "blankValueString"}
FAULTS = ["hed_leaf_not_string", "hed_entry_not_str_or_map", "value_no_hash", "value_two_hash",
          "categorical_with_hash", "column_named_HED", "key_na", "brace_unbalanced_open", "brace_unbalanced_close",
          "brace_nested", "ref_missing_column", "ref_non_hed_column", "self_ref", "nested_ref", "ref_not_a_column_name"]
EXPECT = {"hed_leaf_not_string": TYPE_CODES, "hed_entry_not_str_or_map": TYPE_CODES,
          "value_no_hash": {"PLACEHOLDER_INVALID"}, "value_two_hash": {"PLACEHOLDER_INVALID"},
          "categorical_with_hash": {"PLACEHOLDER_INVALID"}, "column_named_HED": {"SIDECAR_INVALID"},
          "key_na": {"SIDECAR_INVALID"}, "brace_unbalanced_open": {"SIDECAR_BRACES_INVALID"},
          "brace_unbalanced_close": {"SIDECAR_BRACES_INVALID"}, "brace_nested": {"SIDECAR_BRACES_INVALID"},
          "ref_missing_column": {"SIDECAR_BRACES_INVALID"}, "ref_non_hed_column": {"SIDECAR_BRACES_INVALID"},
          "self_ref": {"SIDECAR_BRACES_INVALID"}, "nested_ref": {"SIDECAR_BRACES_INVALID"},
          "ref_not_a_column_name": {"SIDECAR_BRACES_INVALID"}}


class FormDiffers(Exception):
    pass


def run_validate(doc):
    """Validate the document given as an open text stream and, in rotation, as a file name, a one-element list of
    file names, or two files holding the first and the second half of its columns: the verdict must be the same."""
    import os
    import tempfile
    import zlib
    from hed.models.sidecar import Sidecar
    text = json.dumps(doc)
    sc = Sidecar(io.StringIO(text), name="generated")
    issues = sc.validate(hedenv.schema(VERSION))
    form = ["stream", "name", "list", "two-files"][zlib.crc32(text.encode()) % 4]
    if form == "two-files" and len(doc) < 2:
        form = "name"
    if form != "stream":
        paths = []
        try:
            keys = list(doc)
            pieces = [doc] if form != "two-files" else [{k: doc[k] for k in keys[:len(keys) // 2]},
                                                        {k: doc[k] for k in keys[len(keys) // 2:]}]
            for piece in pieces:
                fd, pth = tempfile.mkstemp(suffix="_events.json", dir=os.environ.get("HOME"))
                with os.fdopen(fd, "w", encoding="utf-8") as fp:
                    json.dump(piece, fp)
                paths.append(pth)
            other = Sidecar(paths[0] if form == "name" else paths).validate(hedenv.schema(VERSION))
        finally:
            for pth in paths:
                os.unlink(pth)
        a = sorted((i["code"], i["severity"]) for i in issues)
        b = sorted((i["code"], i["severity"]) for i in other)
        if a != b:
            raise FormDiffers(f"as stream {a} as {form} {b}")
    return issues


def well_formed(issues, out):
    if not isinstance(issues, list):
        out.bad("result-not-a-list", repr(type(issues)))
        return False
    for i in issues:
        if not (isinstance(i, dict) and isinstance(i.get("code"), str) and isinstance(i.get("message"), str)
                and i.get("severity") in (1, 10)):
            out.bad("issue-malformed", repr(i)[:300])
            return False
    return True


def is_plain(v):
    """dict of (dict of str | str): what a typed sidecar column looks like."""
    if not isinstance(v, dict):
        return False
    for x in v.values():
        if isinstance(x, dict):
            if not all(isinstance(y, str) for y in x.values()):
                return False
        elif not isinstance(x, str):
            return False
    return True


def oracle_json(doc):
    out = Outcome()
    out.nontrivial = any(not is_plain(v) for v in doc.values())
    kinds = {type(v).__name__ for v in doc.values()}
    out.classes = tuple(sorted("col:" + k for k in kinds))
    try:
        issues = run_validate(doc)
    except FormDiffers as exc:
        return out.bad("verdict-depends-on-how-the-sidecar-is-given", f"{json.dumps(doc)[:300]}: {exc}")
    except Exception as exc:  # totality: no exception of any type
        from vlib.core import crash_signature
        sig = crash_signature(exc, "validate-raises") or f"validate-raises:{type(exc).__name__}"
        return out.bad(sig, f"{json.dumps(doc)[:300]} -> {exc!r}")
    well_formed(issues, out)
    return out


json_strategy = st.dictionaries(st.one_of(st.sampled_from(gen_tab.COLS + ["onset", "HED", "TaskName"]),
                                          st.text(min_size=1, max_size=5)),
                                gen_tab.json_value, min_size=1, max_size=3)


def spec_features(spec):
    refs = sum(1 for c in spec["columns"].values() for t in
               ([c.get("template")] if c["kind"] == "value" else list(c.get("entries", {}).values()))
               if t is not None for x in gen_hed.flatten(t) if x.get("kind") == "ref")
    return refs


@st.composite
def valid_strategy(draw):
    used = set()
    spec = draw(gen_tab.sidecar_spec(VERSION, 1, 4, used=used))
    doc = gen_tab.sidecar_json(spec)
    with_defs = False
    if draw(st.integers(0, 2)) == 0:
        # a definitions column, a placeholder definition used in Def or Def-expand form inside a value column and a
        # plain definition used in a categorical entry
        pl = gen_hed.pool(VERSION)
        fresh = [n.short for n in pl.plain if n.long not in used][:40]
        f1, f2 = fresh[draw(st.integers(0, 19))], fresh[draw(st.integers(20, 39))]
        defs = {"d1": f"(Definition/PlainDef, ({f1}))"}
        val_cols = [k for k, v in doc.items() if isinstance(v, dict) and isinstance(v.get("HED"), str)]
        cat_cols = [k for k, v in doc.items() if isinstance(v, dict) and isinstance(v.get("HED"), dict)]
        if val_cols:
            vc = val_cols[0]
            import re
            m = re.search(r"[A-Za-z0-9-]+/#", doc[vc]["HED"])
            ph = m.group(0)
            defs["d2"] = f"(Definition/PhDef/#, ({ph}, {f2}))"
            form = draw(st.sampled_from(["Def/PhDef/#", f"(Def-expand/PhDef/#, ({ph}, {f2}))",
                                         f"(Def-expand/PhDef/#, ({f2}, {ph}))"]))
            doc[vc]["HED"] = doc[vc]["HED"].replace(ph, form, 1)
        if cat_cols:
            cc = cat_cols[0]
            k = sorted(doc[cc]["HED"])[0]
            doc[cc]["HED"][k] = doc[cc]["HED"][k] + ", Def/PlainDef"
        doc["mydefs"] = {"HED": defs}
        with_defs = True
    return {"doc": doc, "ncols": len(spec["order"]), "nrefs": spec_features(spec), "with_defs": with_defs}


def oracle_valid(case):
    out = Outcome()
    out.nontrivial = case["ncols"] >= 2 or case["nrefs"] > 0
    out.classes = tuple(c for c, ok in (("refs", case["nrefs"] > 0), ("cols>=3", case["ncols"] >= 3),
                                        ("definitions", case.get("with_defs", False))) if ok)
    try:
        issues = run_validate(case["doc"])
    except FormDiffers as exc:
        return out.bad("verdict-depends-on-how-the-sidecar-is-given", f"{json.dumps(case['doc'])[:300]}: {exc}")
    if not well_formed(issues, out):
        return out
    for i in issues:
        if i["severity"] == 1:
            out.bad(f"valid-sidecar-rejected:{i['code']}", f"{json.dumps(case['doc'])[:700]} -> {i['code']}: "
                                                           f"{i['message'][:200]}")
    # the same Sidecar object validated repeatedly, with definitions supplied from outside
    from hed.models.sidecar import Sidecar
    from hed.models.definition_dict import DefinitionDict
    sch = hedenv.schema(VERSION)
    sc = Sidecar(io.StringIO(json.dumps(case["doc"])), name="generated")
    extra = DefinitionDict(["(Definition/OutsideDef, (Item-count/3))"], sch)
    runs = [sc.validate(sch, extra_def_dicts=extra) for _ in range(3)]
    # the document is then edited through the object and validated again: the new column is screened like any other
    sc.loaded_dict["added_later"] = {"HED": {"x": "Red, {no_such_column_at_all}"}}
    later = {i["code"] for i in sc.validate(sch, extra_def_dicts=extra) if i["severity"] == 1}
    if "SIDECAR_BRACES_INVALID" not in later:
        out.bad("column-added-after-first-validation-not-screened", f"{json.dumps(case['doc'])[:400]} -> {sorted(later)}")
    del sc.loaded_dict["added_later"]
    for k, r in enumerate(runs):
        errs = sorted({i["code"] for i in r if i["severity"] == 1})
        if errs:
            out.bad(f"valid-sidecar-rejected-on-validation-{k + 1}-with-extra-definitions:{'+'.join(errs)}",
                    f"{json.dumps(case['doc'])[:600]}")
            break
    return out


def _hed_columns(doc):
    return [k for k, v in doc.items() if isinstance(v, dict) and "HED" in v]


@st.composite
def fault_strategy(draw):
    start = draw(st.integers(0, len(FAULTS) - 1))
    spec = draw(gen_tab.sidecar_spec(VERSION, 2, 4, allow_refs=draw(st.booleans())))
    doc = gen_tab.sidecar_json(spec)
    cat = [k for k in _hed_columns(doc) if isinstance(doc[k]["HED"], dict)]
    val = [k for k in _hed_columns(doc) if isinstance(doc[k]["HED"], str)]
    ign = [k for k in doc if k not in _hed_columns(doc)]
    hedc = _hed_columns(doc)
    def _strings(col):
        h = doc[col]["HED"]
        return [h] if isinstance(h, str) else list(h.values())
    refcols = [k for k in hedc if any("{" in x for x in _strings(k))]
    avail = []
    for f in FAULTS:
        ok = {"hed_leaf_not_string": bool(cat), "hed_entry_not_str_or_map": bool(hedc), "value_no_hash": bool(val),
              "value_two_hash": bool(val), "categorical_with_hash": bool(cat), "column_named_HED": True,
              "key_na": bool(cat), "brace_unbalanced_open": bool(hedc), "brace_unbalanced_close": bool(hedc),
              "brace_nested": bool(hedc), "ref_missing_column": bool(hedc), "ref_non_hed_column": bool(hedc and ign),
              "self_ref": bool(hedc), "nested_ref": len(hedc) >= 3 or (len(hedc) >= 2 and bool(refcols)),
              "ref_not_a_column_name": bool(hedc)}[f]
        if ok:
            avail.append(f)
    order = FAULTS[start:] + FAULTS[:start]
    fault = [f for f in order if f in avail][0]
    doc = copy.deepcopy(doc)

    def pick(lst):
        return lst[draw(st.integers(0, len(lst) - 1))]

    def edit_some_string(col, fn):
        """Apply fn to one HED string of the column (the value template or one categorical entry)."""
        if isinstance(doc[col]["HED"], str):
            doc[col]["HED"] = fn(doc[col]["HED"])
        else:
            k = pick(sorted(doc[col]["HED"]))
            doc[col]["HED"][k] = fn(doc[col]["HED"][k])

    if fault == "hed_leaf_not_string":
        c = pick(cat)
        k = pick(sorted(doc[c]["HED"]))
        doc[c]["HED"][k] = draw(st.sampled_from([3, None, ["Red"], {"x": "Red"}, True, 1.5]))
    elif fault == "hed_entry_not_str_or_map":
        c = pick(hedc)
        doc[c]["HED"] = draw(st.sampled_from([3, None, ["Red", "Blue"], True, 2.5]))
    elif fault == "value_no_hash":
        referenced = [k for k in val if any("{" + k + "}" in x for col in hedc for x in _strings(col))]
        c = pick(referenced or val)       # a column that another column references, when there is one
        if not referenced and "{" not in doc[c]["HED"]:
            # make another column reference it (legal in itself: the target holds no reference, the referrer is
            # referenced by nobody)
            free = [k for k in hedc if k != c and not any("{" + k + "}" in x for col in hedc for x in _strings(col))]
            if free:
                a = pick(free)
                edit_some_string(a, lambda s: s + ", {" + c + "}")
        doc[c]["HED"] = doc[c]["HED"].replace("/#", "/3")
    elif fault == "value_two_hash":
        c = pick(val)
        doc[c]["HED"] = doc[c]["HED"] + ", Label/#"
    elif fault == "categorical_with_hash":
        c = pick(cat)
        edit_some_string(c, lambda s: s + ", Label/#")
    elif fault == "column_named_HED":
        doc["HED"] = doc.pop(pick(sorted(doc))) if draw(st.booleans()) else {"HED": {"a": "Red"}}
    elif fault == "key_na":
        c = pick(cat)
        k = pick(sorted(doc[c]["HED"]))
        doc[c]["HED"]["n/a"] = doc[c]["HED"].pop(k) if draw(st.booleans()) else "Red"
    elif fault == "brace_unbalanced_open":
        edit_some_string(pick(hedc), lambda s: s + draw(st.sampled_from([", {", ", {resp", "{"])))
    elif fault == "brace_unbalanced_close":
        edit_some_string(pick(hedc), lambda s: draw(st.sampled_from(["}, ", "resp}, "])) + s)
    elif fault == "brace_nested":
        other = pick(hedc)
        edit_some_string(pick(hedc), lambda s: s + ", {" + "{" + other + "}}")
    elif fault == "ref_missing_column":
        edit_some_string(pick(hedc), lambda s: s + ", {nosuchcolumn}")
    elif fault == "ref_not_a_column_name":
        # balanced braces around something that names no column at all
        inside = draw(st.sampled_from(["no such", "", " ", "resp ", " resp", "my.col", "a,b", "resp time", "r\u00e9sp"]))
        edit_some_string(pick(hedc), lambda s: s + ", {" + inside + "}")
    elif fault == "ref_non_hed_column":
        tgt = pick(ign)
        edit_some_string(pick(hedc), lambda s: s + ", {" + tgt + "}")
    elif fault == "self_ref":
        c = pick(hedc)
        edit_some_string(c, lambda s: s + ", {" + c + "}")
    elif fault == "nested_ref":
        if refcols:
            b = pick(refcols)       # b already references something; make a (another column) reference b
            a = pick([k for k in hedc if k != b])
        else:
            a, b, c3 = (list(draw(st.permutations(hedc))) + [None])[:3]
            edit_some_string(b, lambda s: s + ", {" + c3 + "}")
        edit_some_string(a, lambda s: s + ", {" + b + "}")
    return {"doc": doc, "fault": fault}


def oracle_fault(case):
    out = Outcome(nontrivial=True, classes=("fault:" + case["fault"],))
    try:
        issues = run_validate(case["doc"])
    except FormDiffers as exc:
        return out.bad("verdict-depends-on-how-the-sidecar-is-given", f"{json.dumps(case['doc'])[:300]}: {exc}")
    if not well_formed(issues, out):
        return out
    codes = {i["code"] for i in issues if i["severity"] == 1}
    if not (codes & EXPECT[case["fault"]]):
        out.bad(f"fault-not-flagged:{case['fault']}", f"{json.dumps(case['doc'])[:700]} -> errors {sorted(codes)}")
    return out


def warmup(tier):
    hedenv.schema(VERSION)
    gen_hed.pool(VERSION)


def parts(tier):
    q = tier == "quick"
    return [Part("json", oracle_json, strategy=json_strategy, n=2000 if q else 96000),
            Part("valid", oracle_valid, strategy=valid_strategy(), n=600 if q else 24000),
            Part("fault", oracle_fault, strategy=fault_strategy(), n=1000 if q else 24000)] + \
        ([] if q else [Part("coverage-guided", oracle_json, enumerate_fn=fuzz.make_enum("c08", 40000, 128),
                            distinct_by_construction=False)])


def extra_evidence(tier):
    return {"coverage_guided_engine": ("atheris campaigns per shard; corpus and objections replayed through the oracle"
                                       if tier != "quick" and fuzz.available() else
                                       ("not used in the quick tier" if tier == "quick" else "atheris not installed: part empty"))}
