"""C18 — Backups restore byte-for-byte and are never half-valid."""
import json
import io
import os
import re
import shutil
import tempfile

from hypothesis import strategies as st

from vlib.core import Outcome, Part

PROPERTY = "C18"
LEVEL = "fault_enumeration"
SHARDS = {"quick": 8, "thorough": 16}
TECHNIQUE = "model-based operation sequences (Hypothesis) against a path->bytes model, plus exhaustive enumeration of " \
            "crash points of backup creation (forked child killed before/inside/after every file-system step)"
LEVEL_TEXT = ("(a) After create_backup, generated histories of modify / delete / restore[tasks] / create-again / reopen "
              "/ remodel (through the CLI entry points) are replayed against a model of the backed-up bytes: restore "
              "must give byte-identical files, a task-filtered restore must touch only files of those tasks, a second "
              "backup of the same name must be refused without changing a byte, remodeling twice must equal once. "
              "(b) For each generated tree EVERY interruption point of create_backup is enumerated (before/after each "
              "directory creation, before / after k bytes / after each copy, before / empty / half / after the record): "
              "a fresh manager must then not list the backup, or refuse to open, or list it with every recorded file "
              "present and byte-complete.")
LEVEL_NOTE = ("trusted: the byte model; the fault injector wraps os.makedirs, shutil.copy2 and open as seen from "
              "hed.tools.remodeling.backup_manager and kills the child with os._exit: process-kill semantics at "
              "library-call boundaries and inside copies, not power-loss semantics of the file system")
RULE = ("part 'history': Hypothesis trees of 1-6 TSV files in 0-3 directory levels (BIDS 'task-x' and documented "
        "'task_x' names, dot-prefixed names, a derivatives decoy), a file selection and <=8 operations; non-trivial = a "
        "modify/delete between backup and restore. part 'crash': the same trees, all crash points enumerated inside "
        "the oracle (counted in 'crash_points'); non-trivial = crash strictly inside the sequence.")
ASSUMPTIONS = ["a manager constructor that raises counts as 'does not list the backup'",
               "task-filtered restore uses the documented 'task_<name>' substring rule; for BIDS-style 'task-<name>' "
               "names only the 'touches only those files' direction is asserted"]

NAMES = ["sub-01_task-go_events.tsv", "sub-01_task-stop_events.tsv", "sub_01_task_go_events.tsv",
         "sub_02_task_stop_run_1_events.tsv", "events.tsv", ".hidden_task_go_events.tsv", "sub-02_task-go_run-1_events.tsv",
         "task_gonogo_events.tsv"]
DIRS = ["", "sub-01", "sub-01/eeg", "sub-02/ses-1/eeg", ".staging", "Sub-03/EEG", "sub-01/EEG"]
TASKS = ["go", "stop", "gonogo", "none"]
CRASH_COUNT = {"points": 0}


def tsv(rows, tag):
    out = ["onset\tduration\ttrial_type\tvalue"]
    for i in range(rows):
        out.append(f"{1.5 * i + 0.5}\t0.5\t{tag}{i}\t{i * 3}")
    return "\n".join(out) + "\n"


@st.composite
def tree(draw):
    n = draw(st.integers(1, 6))
    files = {}
    for i in range(n):
        d = draw(st.sampled_from(DIRS))
        nm = draw(st.sampled_from(NAMES))
        rel = f"{d}/{nm}" if d else nm
        files[rel] = draw(st.sampled_from([tsv(draw(st.integers(0, 4)), f"t{i}"), "", "onset\tduration\n"]))
    if draw(st.booleans()):
        files["derivatives/other/sub-01_task-go_events.tsv"] = tsv(2, "decoy")
    everything = draw(st.integers(0, 2)) > 0
    selected = [f for f in sorted(files) if not f.startswith("derivatives/") and (everything or draw(st.integers(0, 4)) > 0)]
    if not selected:
        selected = [sorted(f for f in files if not f.startswith("derivatives/"))[0]]
    return {"files": files, "selected": selected, "name": draw(st.sampled_from(["default_back", "b2", "my backup"])),
            "implicit_name": draw(st.booleans())}


@st.composite
def history_case(draw):
    t = draw(tree())
    ops = []
    for _ in range(draw(st.integers(1, 8))):
        kind = draw(st.sampled_from(["modify", "modify", "delete", "delete_dir", "restore", "restore", "restore_tasks", "restore_tasks",
                                     "create_again", "reopen", "remodel", "add_file", "modify_quietly", "read_source"]))
        f = draw(st.sampled_from(sorted(t["files"])))
        ops.append({"op": kind, "file": f, "content": draw(st.sampled_from([tsv(2, "mod"), "", "x\ty\n1\t2\n"])),
                    "tasks": list(draw(st.sets(st.sampled_from(TASKS), min_size=1, max_size=2)))})
    t["ops"] = ops
    return t


def write_tree(files):
    root = tempfile.mkdtemp(prefix="c18_", dir=os.environ.get("HOME"))
    for rel, content in files.items():
        p = os.path.join(root, rel)
        os.makedirs(os.path.dirname(p), exist_ok=True)
        with open(p, "wb") as fp:
            fp.write(content.encode())
    return root


def read(path):
    try:
        with open(path, "rb") as fp:
            return fp.read()
    except FileNotFoundError:
        return None


def snapshot_dir(d):
    out = {}
    for r, _, fs in os.walk(d):
        for f in fs:
            p = os.path.join(r, f)
            out[os.path.relpath(p, d)] = read(p)
    return out


def oracle_history(case):
    from hed.tools.remodeling.backup_manager import BackupManager
    from hed.tools.remodeling.cli import run_remodel
    out = Outcome()
    root = write_tree(case["files"])
    try:
        name = case["name"]
        # the default backup may be asked for by leaving the name out
        create_name = None if (name == BackupManager.DEFAULT_BACKUP_NAME and case.get("implicit_name")) else name
        man = BackupManager(root)
        stale = BackupManager(root)        # a second manager object that existed before the backup was made
        sel = [os.path.join(root, f) for f in case["selected"]]
        ok = man.create_backup(sel, backup_name=create_name, verbose=False)
        if ok is not True:
            return out.bad("first-backup-refused", str(ok))
        model = {f: case["files"][f].encode() for f in case["selected"]}
        backup_dir = os.path.join(man.backups_path, name)
        changed_between = False
        classes = set()
        for op in case["ops"]:
            k = op["op"]
            p = os.path.join(root, op["file"])
            if k == "modify":
                os.makedirs(os.path.dirname(p), exist_ok=True)
                with open(p, "wb") as fp:
                    fp.write(op["content"].encode())
                changed_between = True
            elif k == "modify_quietly":
                # edited in place: same length, timestamps put back (cp -p, rsync -t, coarse clocks)
                if os.path.isfile(p) and os.path.getsize(p) > 0:
                    st_ = os.stat(p)
                    data = read(p)
                    flipped = bytes([data[0] ^ 1]) + data[1:] if data[:1] not in (b"\t", b"\n") else b"X" + data[1:]
                    with open(p, "wb") as fp:
                        fp.write(flipped)
                    os.utime(p, ns=(st_.st_atime_ns, st_.st_mtime_ns))
                    changed_between = True
                    classes.add("quiet-edit")
            elif k == "read_source":
                # the remodeler's source for a backed-up file is the backup copy, however the path is spelled
                from hed.tools.remodeling.dispatcher import Dispatcher
                if op["file"] in model and model[op["file"]].strip():
                    disp = Dispatcher([], data_root=root, backup_name=name)
                    spellings = [p, os.path.join(root, ".", op["file"]),
                                 os.path.join(os.path.dirname(p), "..", os.path.basename(os.path.dirname(p)),
                                              os.path.basename(p)),
                                 root + os.sep + os.sep + op["file"]]
                    link = root + "_link"
                    if not os.path.exists(link):
                        os.symlink(root, link)
                    spellings.append(os.path.join(link, op["file"]))
                    import pandas as pd
                    want = pd.read_csv(io.BytesIO(model[op["file"]]), sep="\t", header=0, keep_default_na=False)
                    for sp in spellings:
                        try:
                            got_df = disp.get_data_file(sp)
                        except Exception as exc:  # noqa
                            out.bad("source-read-raises:" + type(exc).__name__, f"{sp}: {exc!r}"[:300])
                            break
                        if list(got_df.columns) != list(want.columns) or \
                                got_df.astype(str).values.tolist() != want.astype(str).values.tolist():
                            out.bad("remodel-source-is-not-the-backup-copy", f"path spelled {sp!r} (root {root!r}); "
                                                                              f"file currently {read(p)[:60]!r}")
                            break
                    os.unlink(link)
                    classes.add("source-read")
            elif k == "add_file":
                q = p + ".new_events.tsv"
                os.makedirs(os.path.dirname(q), exist_ok=True)
                with open(q, "wb") as fp:
                    fp.write(op["content"].encode())
            elif k == "delete":
                if os.path.exists(p):
                    os.remove(p)
                    changed_between = True
            elif k == "delete_dir":
                top = op["file"].split("/")[0]
                if "/" in op["file"] and top != "derivatives":
                    shutil.rmtree(os.path.join(root, top), ignore_errors=True)
                    changed_between = True
                    classes.add("directory-deleted")
            elif k == "reopen":
                man = BackupManager(root)
                if man.get_backup(name) is None:
                    out.bad("backup-not-listed-after-reopen", name)
            elif k == "create_again":
                before = snapshot_dir(backup_dir)
                who = stale if op.get("tasks", [""])[0] == TASKS[0] else man     # half of the time the older object
                if who is stale:
                    classes.add("create-again-by-older-manager")
                res = who.create_backup(sel, backup_name=create_name, verbose=False)
                if res is not False:
                    out.bad("existing-backup-not-refused", repr(res))
                if snapshot_dir(backup_dir) != before:
                    out.bad("existing-backup-overwritten", name)
                classes.add("create-again")
            elif k == "restore":
                others = {f: read(os.path.join(root, f)) for f in snapshot_dir(root)
                          if f not in model and not f.startswith("derivatives" + os.sep)}
                man.restore_backup(name, verbose=False)
                for f, b in model.items():
                    fp_ = os.path.join(root, f)
                    if not os.path.exists(fp_) or read(fp_) != b:
                        out.bad("restore-not-byte-identical", f"{f!r}: "
                                f"{(read(fp_) or b'<missing>')[:40]!r} expected {b[:40]!r}; "
                                f"selected {case['selected']}")
                for f, b in others.items():
                    fp_ = os.path.join(root, f)
                    if not os.path.exists(fp_) or read(fp_) != b:
                        out.bad("restore-touched-file-outside-backup", f)
                extra = set(snapshot_dir(root)) - set(others) - set(model)
                extra = {e for e in extra if not e.startswith("derivatives" + os.sep)}
                if extra:
                    out.bad("restore-created-unexpected-file", f"{sorted(extra)}; selected {case['selected']}")
                if changed_between:
                    classes.add("restore-after-change")
            elif k == "restore_tasks":
                # work happened on every backed-up file since the backup, so a restore of any of them is visible
                for f in model:
                    fp_ = os.path.join(root, f)
                    if os.path.isfile(fp_):
                        with open(fp_, "ab") as fh:
                            fh.write(b"edited\n")
                changed_between = True
                before = {f: (read(os.path.join(root, f)), os.stat(os.path.join(root, f)).st_mtime_ns)
                          for f in snapshot_dir(root) if not f.startswith("derivatives" + os.sep)}
                man.restore_backup(name, task_names=op["tasks"], verbose=False)
                for f, b in model.items():
                    base = os.path.basename(f)
                    # the file's task is the name after 'task_' (letters and digits): 'go' does not ask for 'gonogo'
                    m_ = re.search(r"task_([A-Za-z0-9]+)", base)
                    wanted = bool(m_) and m_.group(1) in op["tasks"]
                    fp_ = os.path.join(root, f)
                    if wanted:
                        if not os.path.exists(fp_) or read(fp_) != b:
                            out.bad("task-restore-missed-requested-file", f"{f} tasks {op['tasks']}")
                    else:
                        now = (read(fp_), os.stat(fp_).st_mtime_ns) if os.path.exists(fp_) else None
                        if now != before.get(f):
                            out.bad("task-restore-touched-other-task", f"{f} tasks {op['tasks']}")
                for f in before:
                    if f not in model and (read(os.path.join(root, f)), os.stat(os.path.join(root, f)).st_mtime_ns) \
                            != before[f]:
                        out.bad("task-restore-touched-file-outside-backup", f)
                classes.add("task-restore")
            elif k == "remodel":
                model_path = os.path.join(root, "derivatives", "model_rmdl.json")
                os.makedirs(os.path.dirname(model_path), exist_ok=True)
                with open(model_path, "w") as fp:
                    json.dump([{"operation": "rename_columns", "description": "d",
                                "parameters": {"column_mapping": {"trial_type": "event_type"},
                                               "ignore_missing": True}}], fp)
                args = [root, model_path, "-bn", name, "-x", "derivatives", "-ns"]
                try:
                    run_remodel.main(args)
                    once = {f: read(os.path.join(root, f)) for f in model if os.path.exists(os.path.join(root, f))}
                    run_remodel.main(args)
                    twice = {f: read(os.path.join(root, f)) for f in model if os.path.exists(os.path.join(root, f))}
                except Exception as exc:  # noqa
                    # files outside the backup make the remodeler refuse: documented behaviour, not our concern
                    classes.add("remodel-refused")
                    continue
                if once != twice:
                    out.bad("remodel-twice-differs-from-once", str(sorted(k_ for k_ in once if once[k_] != twice.get(k_))))
                if snapshot_dir(backup_dir).keys() and any(
                        read(os.path.join(backup_dir, "backup_root", f)) != b for f, b in model.items()):
                    out.bad("remodel-changed-backup", name)
                classes.add("remodel")
                changed_between = True
        out.nontrivial = "restore-after-change" in classes or "task-restore" in classes or "remodel" in classes
        out.classes = tuple(sorted(classes))
    except Exception as exc:  # noqa
        from vlib.core import crash_signature
        sig = crash_signature(exc, "backup-history-raises")
        if sig is None:
            raise
        out.bad(sig, f"{exc!r}; selected {case['selected']} ops {[o['op'] for o in case.get('ops', [])]}")
    finally:
        shutil.rmtree(root, ignore_errors=True)
    return out


# ------------------------------------------------------------------------------------------------------------
class _Crash(BaseException):
    pass


def run_child(root, sel, name, target, retry=False):
    """Fork; in the child run create_backup with injection point number `target`; return the child's exit status:
    9 = crashed at the target, 0 = finished without reaching it.
    retry=True: the fault is an OSError raised inside a copy (after part of the file was written) instead of a kill;
    the same manager object then calls create_backup again, undisturbed. 7 = fault happened and the retry returned,
    8 = fault happened and the retry raised."""
    pid = os.fork()
    if pid:
        _, status = os.waitpid(pid, 0)
        return os.WEXITSTATUS(status) if os.WIFEXITED(status) else -1
    try:
        import builtins
        from hed.tools.remodeling import backup_manager as bm
        counter = {"n": 0}

        def point():
            if counter["n"] == target and not retry:
                os._exit(9)
            counter["n"] += 1

        real_makedirs, real_copy2, real_open = os.makedirs, shutil.copy2, builtins.open

        class _OS:
            def __getattr__(self, a):
                return getattr(os, a)

            @staticmethod
            def makedirs(*a, **k):
                point()
                r = real_makedirs(*a, **k)
                point()
                return r

        class _SH:
            def __getattr__(self, a):
                return getattr(shutil, a)

            @staticmethod
            def copy2(src, dst):
                point()                                   # before the copy
                data = read(src)
                for cut in sorted({0, 1, len(data) // 2, max(len(data) - 1, 0)}):
                    if cut < len(data) or cut == 0:
                        if counter["n"] == target:       # killed after `cut` bytes were written
                            with real_open(dst, "wb") as fp:
                                fp.write(data[:cut])
                            if retry:
                                counter["n"] = -10 ** 9   # no further faults
                                raise OSError(28, "No space left on device (injected)")
                            os._exit(9)
                        counter["n"] += 1
                r = real_copy2(src, dst)
                point()                                   # after the copy
                return r

        def _open(path, mode="r", *a, **k):
            if "w" in mode and str(path).endswith(bm.BackupManager.BACKUP_DICTIONARY):
                point()                                   # before the record exists
                if counter["n"] == target:               # record created but empty
                    real_open(path, "w").close()
                    os._exit(9)
                counter["n"] += 1
                if counter["n"] == target:               # record half written
                    with real_open(path, "w") as fp:
                        fp.write('{\n    "' + "x" * 3)
                    os._exit(9)
                counter["n"] += 1
            return real_open(path, mode, *a, **k)

        bm.os = _OS()
        bm.shutil = _SH()
        bm.open = _open
        man = bm.BackupManager(root)
        if retry:
            try:
                man.create_backup(sel, backup_name=name, verbose=False)
                os._exit(0)                               # the target was never reached
            except OSError:
                pass
            try:
                man.create_backup(sel, backup_name=name, verbose=False)     # same object, second attempt
                os._exit(7)
            except Exception:  # noqa
                os._exit(8)
        man.create_backup(sel, backup_name=name, verbose=False)
        point()                                           # after everything
        os._exit(0)
    except BaseException:
        os._exit(3)


def oracle_crash(case):
    from hed.tools.remodeling.backup_manager import BackupManager
    out = Outcome()
    model = {f: case["files"][f].encode() for f in case["selected"]}
    target = 0
    inside = 0
    while target < 400:
        root = write_tree(case["files"])
        try:
            sel = [os.path.join(root, f) for f in case["selected"]]
            rc = run_child(root, sel, case["name"], target)
            if rc == 3:
                out.bad("crash-harness-child-failed", f"target {target}")
                break
            data_now = {f: read(os.path.join(root, f)) for f in case["files"] if not f.startswith("derivatives/")}
            if any(data_now[f] != case["files"][f].encode() for f in data_now):
                out.bad("backup-creation-changed-data-files", f"target {target}")
            try:
                man = BackupManager(root)
                listed = man.get_backup(case["name"])
                opened = True
            except Exception as exc:  # noqa  -- refusing to open = the backup is not listed
                listed, opened = None, False
            if listed is not None:
                broot = os.path.join(man.backups_path, case["name"], "backup_root")
                for f, b in model.items():
                    p = os.path.join(broot, f)
                    if not os.path.exists(p):
                        out.bad("listed-backup-with-missing-file", f"crash point {target}: {f}; selected "
                                                                   f"{case['selected']}")
                    elif read(p) != b:
                        out.bad("listed-backup-with-truncated-file", f"crash point {target}: {f} has "
                                f"{len(read(p) or b'')} of {len(b)} bytes; selected {case['selected']}")
                if set(listed) != set(model):
                    out.bad("listed-backup-record-differs", f"crash point {target}: {sorted(listed)} vs {sorted(model)}")
            if rc == 0:
                if listed is None:
                    out.bad("completed-backup-not-listed", f"opened={opened}")
                break
            inside += 1
            # the user tries again after the interruption: whatever the second attempt answers, a backup that is
            # listed afterwards holds every file complete
            if listed is None and opened:
                try:
                    again = man.create_backup(sel, backup_name=case["name"], verbose=False)
                    man2 = BackupManager(root)
                    listed2 = man2.get_backup(case["name"])
                except Exception as exc:  # noqa  -- a refusal is acceptable
                    again, listed2 = None, None
                if listed2 is not None:
                    broot = os.path.join(man2.backups_path, case["name"], "backup_root")
                    for f, b in model.items():
                        p = os.path.join(broot, f)
                        if not os.path.exists(p) or read(p) != b:
                            out.bad("retried-backup-lists-incomplete-file", f"crash point {target}, retry returned "
                                    f"{again!r}: {f} has {len(read(p) or b'')} of {len(b)} bytes")
                            break
        finally:
            shutil.rmtree(root, ignore_errors=True)
        target += 1
    # the same faults as errors inside a copy, followed by a second attempt through the same manager object
    for target2 in range(0, max(inside, 1), 3):
        root = write_tree(case["files"])
        try:
            sel = [os.path.join(root, f) for f in case["selected"]]
            rc = run_child(root, sel, case["name"], target2, retry=True)
            if rc == 3:
                out.bad("crash-harness-child-failed", f"retry target {target2}")
                break
            if rc in (7, 8):
                try:
                    man = BackupManager(root)
                    listed = man.get_backup(case["name"])
                except Exception:  # noqa
                    listed = None
                if listed is not None:
                    broot = os.path.join(man.backups_path, case["name"], "backup_root")
                    for f, b in model.items():
                        p = os.path.join(broot, f)
                        if not os.path.exists(p) or read(p) != b:
                            out.bad("retried-backup-lists-incomplete-file", f"error at point {target2}, retry "
                                    f"{'returned' if rc == 7 else 'raised'}: {f} has {len(read(p) or b'')} of "
                                    f"{len(b)} bytes; selected {case['selected']}")
                            break
                out.classes += ("error-then-retry",)
        finally:
            shutil.rmtree(root, ignore_errors=True)
    CRASH_COUNT["points"] += inside
    out.nontrivial = inside >= 3
    out.classes = tuple(sorted(set(out.classes))) + (f"crash-points:{min(inside // 10 * 10, 60)}+",)
    return out


def describe(case):
    return {"files": sorted(case["files"]), "selected": case["selected"], "name": case["name"],
            "ops": [o["op"] for o in case.get("ops", [])]}


def parts(tier):
    q = tier == "quick"
    return [Part("history", oracle_history, strategy=history_case(), n=320 if q else 16000, describe=describe),
            Part("crash", oracle_crash, strategy=tree(), n=40 if q else 4800, describe=describe)]
