"""C01 — String validation verdict agrees with the HED rules.

Generator: annotation grammar over the independent XML model (vlib.gen_hed) for every bundled schema; one
single-rule mutation per invalid case.  Oracle: valid => no ERROR issue; mutated => the ERROR codes contain the
HED-specification code of the injected rule.
"""
import itertools

from hypothesis import strategies as st

from vlib.core import Outcome, Part
from vlib import gen_hed, hedenv, xmlschema

PROPERTY = "C01"
LEVEL = "exploration"
SHARDS = {"quick": 8, "thorough": 16}
TECHNIQUE = "grammar-based generation (Hypothesis) + single-rule mutation, expected verdict from an independent " \
            "XML model; exhaustive lone-tag sweep of each vocabulary"
LEVEL_TEXT = ("Generated valid annotations must validate without ERROR; each of 30 single-rule mutators must draw "
              "its specification code; every tag of every schema alone and in a group is swept exhaustively with "
              "the verdict predicted from its XML attributes.")
LEVEL_NOTE = ("trusted: vlib/xmlschema.py + vlib/gen_hed.py (what counts as rule-conforming), the expected-code table "
              "taken from the HED specification's Appendix B names")
RULE = ("valid part: Hypothesis annotation trees (depth<=4 incl. special groups, <=4 siblings per list, distinct "
        "nodes) over plain/extension/value/unit tags, Def, Def-expand, Onset/Offset/Inset, Duration/Delay, "
        "Event-context, placeholders when allowed; mutated part: the same with exactly one of 30 rule violations; "
        "sweep part: every non-placeholder node x {short,long} x {alone, in a group} (enumerated). Non-trivial = "
        ">=2 tags and (nesting>=1 or a value/extension/Def), every mutated case, and sweep cases of nodes with a "
        "special attribute.")
ASSUMPTIONS = ["excluded by construction: deprecated nodes/units, unit names containing a blank ('degree Celsius'), "
               "children of '#', letter-case variants of values, 'required' (no bundled schema uses it)",
               "one textual fault may legitimately trigger further codes: only presence of the expected code is "
               "required"]

ALL = hedenv.BUNDLED
QUICK = ["8.3.0", "score_2.0.0", "8.2.0"]


def _case(ann, text, expect=None, mutation=None):
    return {"version": ann["version"], "defs": gen_hed.def_strings(ann["defs"]), "text": text,
            "allow_placeholders": ann["allow_placeholders"], "expect": expect, "mutation": mutation,
            "ntags": gen_hed.count_tags(ann["tree"]), "depth": gen_hed.depth_of(ann["tree"])}


def valid_strategy(versions):
    @st.composite
    def strat(draw):
        v = draw(st.sampled_from(versions))
        ap = draw(st.booleans())
        ann = draw(gen_hed.annotation(v, allow_placeholder=ap))
        how = draw(st.integers(0, 2))
        if how == 0:
            text = gen_hed.render(ann["tree"])
        elif how == 1:
            text = draw(gen_hed.render_spaced(ann["tree"]))
        else:
            _, text = draw(gen_hed.rewritten(ann["tree"], v))
        c = _case(ann, text)
        c["rich"] = any(t.get("kind") not in ("plain",) for t in gen_hed.flatten(ann["tree"]))
        return c
    return strat()


def mutated_strategy(versions, kinds=None):
    @st.composite
    def strat(draw):
        start = draw(st.integers(0, len(kinds or (gen_hed.TREE_MUTATIONS + gen_hed.TEXT_MUTATIONS)) - 1))
        v = draw(st.sampled_from(versions))
        ap = draw(st.booleans())
        ann = draw(gen_hed.annotation(v, allow_placeholder=ap, max_depth=2))
        mut = draw(gen_hed.mutated(ann, kinds=kinds, start=start))
        if mut["text"] is not None:
            text = mut["text"]
        elif draw(st.booleans()):
            _, text = draw(gen_hed.rewritten(mut["tree"], v))   # any valid spelling / order / spacing
        else:
            text = gen_hed.render(mut["tree"])
        return _case(ann, text, mut["expect"], mut["mutation"])
    return strat()


_dd_cache = {}


def _validate(case):
    from hed.models import HedString
    from hed.models.definition_dict import DefinitionDict
    sch = hedenv.schema(case["version"])
    dd = None
    if case["defs"]:
        dd = DefinitionDict(case["defs"], sch)
        if dd.issues or len(dd.defs) != len(case["defs"]):
            return None, f"definitions not accepted: {case['defs']}", None
    hs = HedString(case["text"], sch, def_dict=dd)
    issues = hs.validate(allow_placeholders=case["allow_placeholders"])
    # the same object asked again, and a long-lived validator that has seen other annotations, must agree
    again = hs.validate(allow_placeholders=case["allow_placeholders"])
    if _codes(again) != _codes(issues):
        return issues, None, f"second validate() of one object: {_codes(issues)} then {_codes(again)}"
    if dd is None:
        from hed.validator.hed_validator import HedValidator
        if case["version"] not in _shared_validators:
            _shared_validators[case["version"]] = HedValidator(sch)
        third = _shared_validators[case["version"]].validate(HedString(case["text"], sch),
                                                             allow_placeholders=case["allow_placeholders"])
        if _codes(third) != _codes(issues):
            return issues, None, f"reused HedValidator: fresh {_codes(issues)} reused {_codes(third)}"
    return issues, None, None


_shared_validators = {}


def _codes(issues):
    return sorted((i["code"], i["severity"]) for i in issues)


def oracle_valid(case):
    out = Outcome()
    issues, err, unstable = _validate(case)
    if err:
        return out.bad("valid-definition-rejected", err)
    if unstable:
        out.bad("verdict-depends-on-object-history", f"{case['version']}: {case['text']!r}: {unstable}")
    errs = [i for i in issues if i["severity"] == 1]
    out.nontrivial = case["ntags"] >= 2 and (case["depth"] >= 1 or case.get("rich", False))
    out.classes = tuple(c for c, ok in (("depth>=2", case["depth"] >= 2), ("defs", bool(case["defs"])),
                                        ("placeholders-allowed", case["allow_placeholders"]),
                                        ("tags>=6", case["ntags"] >= 6)) if ok)
    for e in errs:
        out.bad(f"valid-annotation-rejected:{e['code']}", f"{case['version']}: {case['text']!r} defs={case['defs']} "
                                                          f"-> {e['code']}: {e['message'][:200]}")
    return out


def oracle_mutated(case):
    out = Outcome(nontrivial=True, classes=("mut:" + case["mutation"],))
    issues, err, unstable = _validate(case)
    if err:
        return out.bad("valid-definition-rejected", err)
    if unstable:
        out.bad("verdict-depends-on-object-history", f"{case['version']}: {case['text']!r}: {unstable}")
    codes = {i["code"] for i in issues if i["severity"] == 1}
    if case["expect"] not in codes:
        out.bad(f"mutation-not-flagged:{case['mutation']}:{case['expect']}",
                f"{case['version']}: {case['text']!r} defs={case['defs']} allow_ph={case['allow_placeholders']} "
                f"-> {sorted(codes)}")
    return out


# ------------------------------------------------------------------------------------------------------------
# exhaustive lone-tag sweep: verdict predicted from the XML attributes
def predict_lone(m, node, in_group):
    """Expected ERROR codes for the node alone (top level) or alone in one top-level group; None = not predicted."""
    a = set(node.inherited) | set(node.attrs)
    codes = set()
    if "requireChild" in node.attrs:
        codes.add("TAG_REQUIRES_CHILD")
    short = node.short.casefold()
    if short in ("def", "def-expand", "definition", "onset", "offset", "inset", "duration", "delay"):
        return None   # special semantics beyond attributes: covered by the grammar parts
    tg = "tagGroup" in a
    tl = "topLevelTagGroup" in a
    if (tg or tl) and not in_group:
        codes.add("TAG_GROUP_ERROR")
    return codes


def oracle_sweep(case):
    from hed.models import HedString
    version, long_name, form, in_group = case
    out = Outcome()
    m = xmlschema.model(hedenv.xml_path(version))
    node = m.by_long[long_name.casefold()]
    exp = predict_lone(m, node, in_group)
    if exp is None:
        return out
    sch = hedenv.schema(version)
    text = node.long if form == "long" else node.short
    if in_group:
        text = f"({text})"
    issues = HedString(text, sch).validate(allow_placeholders=False)
    got = {i["code"] for i in issues if i["severity"] == 1}
    out.nontrivial = bool(exp) or in_group or form == "long"
    if got != exp:
        out.bad(f"lone-tag-verdict:{'+'.join(sorted(exp)) or 'clean'}->{'+'.join(sorted(got)) or 'clean'}",
                f"{version}: {text!r}: expected {sorted(exp)} got {sorted(got)}")
    return out


def make_sweep(versions):
    def enum(shard, nshards):
        def gen():
            for v in versions:
                m = xmlschema.model(hedenv.xml_path(v))
                for node in m.nodes:
                    for form in ("short", "long"):
                        for in_group in (False, True):
                            yield (v, node.long, form, in_group)
        return itertools.islice(gen(), shard, None, nshards)
    return enum


def warmup(tier):
    for v in (QUICK if tier == "quick" else ALL):
        hedenv.schema(v)
        gen_hed.pool(v)


# ------------------------------------------------------------------------------------------------------------
# permitted extensions whose name merely begins like a unique tag's name
def make_lookalike_enum(versions):
    def enum(shard, nshards):
        def gen():
            for v in versions:
                m = xmlschema.model(hedenv.xml_path(v))
                pl = gen_hed.pool(v)
                hosts = [n.short for n in pl.extendable][:2]
                for n in m.nodes:
                    if "unique" in n.attrs and "/" in n.long:
                        # the unique tag's own parent (its long form then begins with the unique tag's long form)
                        for host in [n.long.split("/")[-2]] + hosts:
                            for tail in ("s", "A", "-2"):
                                yield (v, n.short, host, tail)
        return itertools.islice(gen(), shard, None, nshards)
    return enum


def oracle_lookalike(case):
    from hed.models import HedString
    v, unique, host, tail = case
    out = Outcome(nontrivial=True, classes=("lookalike-of:" + unique,))
    sch = hedenv.schema(v)
    for text in (f"{host}/{unique}{tail}, {host}/{unique}{tail}x",
                 f"({unique}, (Sensory-event)), {host}/{unique}{tail}"):
        errs = sorted({i["code"] for i in HedString(text, sch).validate(allow_placeholders=False) if i["severity"] == 1})
        if errs:
            out.bad("valid-annotation-rejected:extension-that-begins-like-a-unique-tag:" + "+".join(errs),
                    f"{v}: {text!r} -> {errs}")
    return out


def parts(tier):
    versions = QUICK if tier == "quick" else ALL
    nv, nm = (1500, 4000) if tier == "quick" else (120000, 200000)
    sweep_versions = ["8.3.0"] if tier == "quick" else ALL
    return [Part("valid", oracle_valid, strategy=valid_strategy(versions), n=nv),
            Part("mutated", oracle_mutated, strategy=mutated_strategy(versions), n=nm),
            Part("lookalike-extensions", oracle_lookalike, enumerate_fn=make_lookalike_enum(versions), exhaustive=True),
            Part("sweep", oracle_sweep, enumerate_fn=make_sweep(sweep_versions), exhaustive=True)]


def extra_evidence(tier):
    return {"schemas": QUICK if tier == "quick" else ALL,
            "mutators": gen_hed.TREE_MUTATIONS + gen_hed.TEXT_MUTATIONS}
