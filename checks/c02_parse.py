"""C02 — Parsing is total and the parse tree mirrors the source text.

Oracle: a reference tokenizer/nester written from the property statement (no hed code), compared with
HedString's tree (tags, spans, nesting), plus print/re-parse round trips and the unbalanced-parentheses clause.
"""
import itertools

from hypothesis import strategies as st

from vlib.core import Outcome, Part
from vlib import fuzz, hedenv

PROPERTY = "C02"
LEVEL = "exploration"
SHARDS = {"quick": 8, "thorough": 16}
RULE = ("part 'exhaustive': every string up to the length bound over the alphabet {a, blank, ',', '(', ')', '/'} "
        "(enumerated, distinct by construction); part 'token-sequences': every sequence of up to 3 (quick) / 4 (thorough) "
        "of 32 tokens incl. n/a, none, #, braces; part 'unicode': Hypothesis lists of tokens drawn from "
        "delimiters, blanks, other white space, real tag names, namespace prefixes, '#', ':' and arbitrary "
        "Unicode characters. Non-trivial = (>=1 tag and >=1 delimiter) or unbalanced parentheses.")
ASSUMPTIONS = ["'blank' in the statement is U+0020 (the only character the tokenizer defines as spacing); other "
               "white space is tag text", "schema 8.3.0 and the group (8.3.0, sc:score_2.0.0) are the schemas used",
               "tree equality after re-parse = same shape and per tag equal short and long forms (equal original "
               "text for the original form)"]

DELIMS = ",()"


def ref_parse(text):
    """Return (balanced, tree). tree = list of ('t', start, end) | ('g', start, end, children)."""
    stack = [[]]
    starts = []
    run_start = None

    def flush(end):
        a, b = run_start, end
        while a < b and text[a] == ' ':
            a += 1
        while b > a and text[b - 1] == ' ':
            b -= 1
        if a < b:
            stack[-1].append(('t', a, b))

    for i, ch in enumerate(text):
        if ch in DELIMS:
            if run_start is not None:
                flush(i)
                run_start = None
            if ch == '(':
                stack.append([])
                starts.append(i)
            elif ch == ')':
                if len(stack) == 1:
                    return False, None
                children = stack.pop()
                stack[-1].append(('g', starts.pop(), i + 1, children))
        elif run_start is None:
            run_start = i
    if run_start is not None:
        flush(len(text))
    if len(stack) != 1:
        return False, None
    return True, stack[0]


def impl_tree(group):
    from hed.models.hed_tag import HedTag
    out = []
    for child in group.children:
        if isinstance(child, HedTag):
            out.append(('t', child.span[0], child.span[1]))
        else:
            out.append(('g', child.span[0], child.span[1], impl_tree(child)))
    return out


def shape_forms(group, attr):
    """Nested lists of the given tag attribute: the tree up to positions."""
    from hed.models.hed_tag import HedTag
    return [getattr(c, attr) if isinstance(c, HedTag) else shape_forms(c, attr) for c in group.children]


def count_nodes(tree):
    tags = groups = 0
    for n in tree:
        if n[0] == 't':
            tags += 1
        else:
            groups += 1
            t, g = count_nodes(n[3])
            tags += t
            groups += g
    return tags, groups


def check_text(text, schema, out, tag):
    from hed.models import HedString
    from hed.errors.error_types import ValidationErrors
    try:
        hs = HedString(text, schema)
    except Exception as exc:  # constructor must be total
        out.bad(f"{tag}constructor-raises:{type(exc).__name__}", repr(exc))
        return
    balanced, tree = ref_parse(text)
    if not balanced:
        out.nontrivial = True
        if hs.children:
            out.bad(f"{tag}unbalanced-tree-not-empty", f"{text!r} -> {str(hs)!r}")
        codes = [i["code"] for i in hs.validate()]
        if ValidationErrors.PARENTHESES_MISMATCH not in codes:
            # distinguish the count-equal (order) case from anything else
            kind = "order" if text.count("(") == text.count(")") else "count"
            out.bad(f"{tag}unbalanced-no-mismatch-reported:{kind}", f"{text!r} -> {codes}")
        return
    ntags, ngroups = count_nodes(tree)
    if ntags and any(c in text for c in DELIMS):
        out.nontrivial = True
    got = impl_tree(hs)
    if got != tree:
        out.bad(f"{tag}tree-differs-from-reference", f"{text!r}: got {got} expected {tree}")
        return
    if hs.span != (0, len(text)):
        out.bad(f"{tag}string-span", f"{text!r}: {hs.span}")
    # org text is the source slice
    for t in hs.get_all_tags():
        if t.org_tag != text[t.span[0]:t.span[1]]:
            out.bad(f"{tag}org-tag-not-source-slice", f"{text!r}: {t.org_tag!r} {t.span}")
    for g in hs.get_all_groups():
        if g is not hs and g.get_original_hed_string() != text[g.span[0]:g.span[1]]:
            out.bad(f"{tag}group-text-not-source-slice", f"{text!r}: {g.span}")
    # printing and re-parsing
    base_short = shape_forms(hs, "short_tag")
    base_long = shape_forms(hs, "long_tag")
    base_org = shape_forms(hs, "org_tag")
    forms = (("str", str(hs), False), ("short", hs.get_as_short(), False), ("long", hs.get_as_long(), False),
             ("original", hs.get_original_hed_string(), True), ("as_original", hs.get_as_original(), True))
    for name, printed, is_org in forms:
        if printed == text:
            continue  # re-parsing the identical text is the parse above
        try:
            again = HedString(printed, schema)
        except Exception as exc:
            out.bad(f"{tag}reparse-raises:{name}:{type(exc).__name__}", f"{text!r} -> {printed!r}")
            continue
        if is_org:
            same = shape_forms(again, "org_tag") == base_org
        else:
            same = shape_forms(again, "short_tag") == base_short and shape_forms(again, "long_tag") == base_long
        if not same or not (again == hs):
            out.bad(f"{tag}roundtrip-differs:{name}", f"{text!r} -> {printed!r} -> {str(again)!r}")


_SCHEMAS = {}


def _schemas():
    if not _SCHEMAS:
        _SCHEMAS["std"] = hedenv.schema("8.3.0")
        _SCHEMAS["grp"] = hedenv.schema(("8.3.0", "sc:score_2.0.0"))
    return _SCHEMAS


def warmup(tier):
    _schemas()


def oracle_exhaustive(text):
    out = Outcome()
    check_text(text, _schemas()["std"], out, "")
    return out


def oracle_unicode(case):
    out = Outcome()
    text = case["text"]
    check_text(text, _schemas()[case["schema"]], out, "")
    if len(text) > 20:
        out.classes += ("len>20",)
    if any(ord(c) > 127 for c in text):
        out.classes += ("non-ascii",)
    if ":" in text:
        out.classes += ("colon",)
    bal, _ = ref_parse(text)
    out.classes += ("balanced" if bal else "unbalanced",)
    return out


ALPHABET = "a ,()/"


def make_enum(maxlen):
    def enum(shard, nshards):
        def gen():
            for n in range(maxlen + 1):
                for tup in itertools.product(ALPHABET, repeat=n):
                    yield "".join(tup)
        return itertools.islice(gen(), shard, None, nshards)
    return enum


TOKENS = ["(", ")", ",", " ", "/", "(", ")", ",", "Red", "Blue", "Event", "Sensory-event", "Label/", "Label/x y",
          "Event/Sensory-event", "Item/Object", "#", ":", "sc:", "xx:", "\t", " ", " ", "\n", "Def/", "{", "}",
          "sc:Hiccup", "Duration/3 ms", "RED", "a", "b", "Action/Move/Flex", "  ",
          # text that is not in Unicode normal form (combining mark, Hangul jamo, compatibility singleton)
          "Label/Cafe\u0301", "e\u0301", "\u1100\u1161", "\u212b", "\ufb01",
          # spellings whose casefold() has another length than the text (sharp s, ligatures) in front of a slash
          "Pre\u00df/Foo", "Loudne\u00df/5", "De\ufb01nition/MyDef", "O\ufb00set", "Label/Stra\u00dfe", "Pre\u00df",
          # a '#' that is a path segment of its own
          "Label/#/#/x", "Age/#/#", "/#", "#/"]

text_strategy = st.builds(
    lambda toks, sch: {"text": "".join(toks), "schema": sch},
    st.lists(st.one_of(st.sampled_from(TOKENS), st.sampled_from(TOKENS),
                       st.characters(exclude_categories=["Cs"])), max_size=40),
    st.sampled_from(["std", "grp"]))


# every sequence of up to three (quick) / four (thorough) of these tokens: texts with special meanings elsewhere in
# the library (n/a, empty, placeholders, braces) are ordinary text to the parser
SEQ_TOKENS = ["(", ")", ",", " ", "/", "n/a", "N/A", "n", "a", "na", "none", "nan", "null", "#", "{", "}", ":", "Red",
              "Label/x", "Def/a", "Onset", "HED", "\t", "0", "-", ".", "~", "[", "]", "sc:Red", "@", "\u00e9"]


def make_seq_enum(maxlen):
    def enum(shard, nshards):
        def gen():
            for n in range(1, maxlen + 1):
                for tup in itertools.product(SEQ_TOKENS, repeat=n):
                    yield "".join(tup)
        return itertools.islice(gen(), shard, None, nshards)
    return enum


def parts(tier):
    maxlen = 7 if tier == "quick" else 9
    n_unicode = 20000 if tier == "quick" else 200000
    return [
        Part("exhaustive", oracle_exhaustive, enumerate_fn=make_enum(maxlen), exhaustive=True),
        Part("unicode", oracle_unicode, strategy=text_strategy, n=n_unicode),
        Part("token-sequences", oracle_exhaustive, enumerate_fn=make_seq_enum(3 if tier == "quick" else 4),
             exhaustive=True, distinct_by_construction=False),
    ] + ([Part("coverage-guided", oracle_unicode, enumerate_fn=fuzz.make_enum("c02", 150000),
               distinct_by_construction=False)] if tier != "quick" else [])


def extra_evidence(tier):
    maxlen = 7 if tier == "quick" else 9
    return {"coverage_guided_engine": ("atheris campaigns per shard; corpus and objections replayed through the oracle"
                                       if tier != "quick" and fuzz.available() else
                                       ("not used in the quick tier" if tier == "quick" else "atheris not installed: part empty")),
            "exhaustive_bound": f"all {sum(6 ** k for k in range(maxlen + 1))} strings of length <= {maxlen} over "
                                f"{list(ALPHABET)}"}
