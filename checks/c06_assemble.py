"""C06 — Event-file rows assemble into exactly the annotation the sidecar prescribes."""
import copy
import io
import json

from hypothesis import strategies as st

from vlib.core import Outcome, Part
from vlib import gen_hed, gen_tab, hedenv

PROPERTY = "C06"
LEVEL = "exploration"
SHARDS = {"quick": 8, "thorough": 16}
TECHNIQUE = "Hypothesis-generated (sidecar, table) pairs against a reference assembler on annotation trees; " \
            "purity and repeatability checked by snapshots"
LEVEL_TEXT = ("For generated sidecars (categorical/value/ignored columns, 0-2 curly-brace references incl. {HED}) and "
              "tables (category keys, unknown keys, n/a, empty, values; TSV text and DataFrame input), the assembled "
              "series is compared row by row, as an order-insensitive tree, with a reference assembler written from "
              "the statement; the produced text must be delimiter-well-formed; two calls must agree; table (values, "
              "dtypes, index, columns) and sidecar must be unchanged.")
LEVEL_NOTE = "trusted: vlib/gen_tab.py reference assembler and parser; pandas for reading the generated TSV text"
RULE = ("Hypothesis: sidecar spec (1-4 columns) -> table of 1-6 rows; non-trivial = some reference whose cell "
        "contributes nothing in some row (n/a, empty, unknown key), or >=2 HED-bearing column kinds in the table.")
ASSUMPTIONS = ["every referenced column is present in the table (a reference to a column missing from the file is a "
               "validation matter, C07/C08)", "cell texts contain no double quote, tab or newline (TSV quoting is not "
               "HED's business)", "sibling order inside the assembled annotation is not compared (HED groups are "
               "unordered)", "schema 8.3.0"]

VERSION = "8.3.0"
# cell texts that pandas' default NA handling (kept on by the text loader) turns into a missing cell
PANDAS_NA_TEXTS = {"None", "NA", "N/A", "NULL", "null", "NaN", "nan", "-NaN", "-nan", "<NA>", "#N/A", "#NA", "n/a",
                   "#N/A N/A", "1.#IND", "-1.#IND", "1.#QNAN", "-1.#QNAN"}


def rename_column(spec, table, old, new):
    """Give a sidecar column (and every reference to it, and the table column) another name."""
    def walk(nodes):
        for n in nodes:
            if isinstance(n, dict) and "g" in n:
                walk(n["g"])
            elif isinstance(n, dict) and n.get("kind") == "ref" and n.get("ref") == old:
                n.update(t="{" + new + "}", id="ref:" + new, ref=new)
    for col in spec["columns"].values():
        if col["kind"] == "categorical":
            for tree in col["entries"].values():
                walk(tree)
        elif col["kind"] == "value":
            walk(col["template"])
    spec["columns"] = {(new if k == old else k): v for k, v in spec["columns"].items()}
    spec["order"] = [new if k == old else k for k in spec["order"]]
    table["header"] = [new if h == old else h for h in table["header"]]


@st.composite
def strategy(draw):
    used = set()
    spec = draw(gen_tab.sidecar_spec(VERSION, 1, 4, used=used, hed_column=True))
    mode = draw(st.sampled_from(["tsv", "df", "file"]))
    table = draw(gen_tab.table_for(spec, VERSION, used, onset=draw(st.booleans())))
    # an annotated column may carry any name, also the name of a timing column
    bearing = [h for h in table["header"] if h in spec["columns"] and spec["columns"][h]["kind"] != "ignored"]
    if "onset" not in table["header"] and bearing and draw(st.integers(0, 3)) == 0:
        rename_column(spec, table, bearing[0], draw(st.sampled_from(["duration", "onset"])))
    for row in table["rows"]:
        for i, c in enumerate(row):
            row[i] = c.replace('"', "q").replace("\t", " ")
    if mode in ("tsv", "file") and len(table["header"]) == 1:
        for row in table["rows"]:
            row[0] = row[0] or "n/a"
    edit = (draw(st.integers(0, 50)), draw(st.integers(0, 5)), draw(st.integers(0, 5))) if draw(st.booleans()) else None
    return {"spec": spec, "table": table, "mode": mode, "edit": edit, "spacing": draw(st.sampled_from([0, 0, 1, 2]))}


def respace(doc, mode):
    """The same sidecar with blanks inside parentheses (mode 1) and also before commas (mode 2): spacing around
    delimiters and references is free in HED strings."""
    if not mode:
        return doc

    def sp(text):
        text = text.replace("(", "( ").replace(")", " )")
        return text.replace(",", " ,") if mode == 2 else text

    out = {}
    for col, body in doc.items():
        body = dict(body)
        if isinstance(body.get("HED"), str):
            body["HED"] = sp(body["HED"])
        elif isinstance(body.get("HED"), dict):
            body["HED"] = {k: sp(v) for k, v in body["HED"].items()}
        out[col] = body
    return out


def build(case):
    import pandas as pd
    from hed.models.sidecar import Sidecar
    from hed.models.tabular_input import TabularInput
    doc = respace(gen_tab.sidecar_json(case["spec"]), case.get("spacing", 0))
    sidecar = Sidecar(io.StringIO(json.dumps(doc)), name="sc")
    t = case["table"]
    if case["mode"] == "tsv":
        tab = TabularInput(io.StringIO(gen_tab.to_tsv(t)), sidecar=sidecar, name="tab")
    elif case["mode"] == "file":
        import os
        import tempfile
        fd, path = tempfile.mkstemp(suffix="_events.tsv", dir=os.environ.get("HOME"))
        with os.fdopen(fd, "w", encoding="utf-8", newline="") as fp:
            fp.write(gen_tab.to_tsv(t))
        jpath = path[:-4] + ".json"
        with open(jpath, "w", encoding="utf-8") as fp:
            json.dump(doc, fp)
        stale_path = None
        hed_cols = [c for c, body in doc.items() if isinstance(body, dict) and "HED" in body]
        if hed_cols and case.get("spacing", 0) != 1:
            # a list of sidecar files: an earlier file holds an older entry of one column - more categories, or a value
            # template where the later file has categories; the later file's entry replaces it as a whole
            c0 = hed_cols[0]
            older = {"HED": {"zzz-unknown": "Blue", "n/a-like": "Green", "left": "Triangle"}} \
                if isinstance(doc[c0]["HED"], dict) else {"HED": {"3": "Blue", "zzz-unknown": "Green"}}
            stale_path = path[:-4] + "_older.json"
            with open(stale_path, "w", encoding="utf-8") as fp:
                json.dump({c0: older, "stale_only": {"HED": {"q": "Square"}}}, fp)
        try:
            if stale_path:
                sidecar = Sidecar([stale_path, jpath], name="sc")
                tab = TabularInput(path, sidecar=sidecar)
                doc = dict(doc, stale_only={"HED": {"q": "Square"}})      # what the two files amount to
            else:
                tab = TabularInput(path, sidecar=jpath)       # both given as file names
                sidecar = tab._sidecar
        finally:
            os.unlink(path)
            os.unlink(jpath)
            if stale_path:
                os.unlink(stale_path)
    else:
        df = pd.DataFrame(t["rows"], columns=t["header"], dtype=str)
        tab = TabularInput(df, sidecar=sidecar, name="tab")
    return tab, sidecar, doc


def snapshot(df):
    return (df.copy(deep=True), [str(x) for x in df.dtypes], list(df.columns), list(df.index))


def same_frame(snap, df):
    old, dtypes, cols, idx = snap
    if list(df.columns) != cols or list(df.index) != idx:
        return "shape"
    if [str(x) for x in df.dtypes] != dtypes:
        return "dtypes"
    if not old.astype(object).equals(df.astype(object)):
        return "values"
    return None


def oracle(case):
    out = Outcome()
    spec, t = case["spec"], case["table"]
    tab, sidecar, doc = build(case)
    snap = snapshot(tab.dataframe)
    doc_before = copy.deepcopy(sidecar.loaded_dict)
    rows = t["rows"]
    if case["mode"] in ("tsv", "file"):
        rows = [[("n/a" if c == "" else c) for c in r] for r in rows]   # what the documented TSV reading yields
    expected = gen_tab.reference_assemble(spec, t["header"], rows)
    refs = gen_tab.all_refs(spec) & set(t["header"])
    first = list(tab.series_a)
    second = list(tab.series_a)
    # classification
    absent_ref = False
    for row in rows:
        cells = dict(zip(t["header"], row))
        for r in refs:
            cs = spec["columns"].get(r, {"kind": "hed"})
            if gen_tab.contribution(cs, cells[r]) is None:
                absent_ref = True
    kinds = {spec["columns"][h]["kind"] for h in t["header"] if h in spec["columns"]} | \
            ({"hed"} if "HED" in t["header"] else set())
    kinds.discard("ignored")
    out.nontrivial = absent_ref or len(kinds) >= 2
    out.classes = tuple(c for c, ok in (("ref-with-absent-cell", absent_ref), ("has-ref", bool(refs)),
                                        ("mode:" + case["mode"], True), ("{HED}", "HED" in refs)) if ok)
    if len(first) != len(rows):
        return out.bad("row-count-differs", f"{len(first)} vs {len(rows)} rows; table={t}")
    if first != second:
        out.bad("second-call-differs", f"{first} vs {second}")
    for i, (got, exp) in enumerate(zip(first, expected)):
        got = str(got)
        ctx = f"row {i} cells={dict(zip(t['header'], rows[i]))} sidecar={json.dumps(doc)[:600]}"
        if not gen_tab.delimiter_well_formed(got) and got.strip() != "":
            kind = "empty-ref" if absent_ref else "other"
            out.bad(f"assembled-text-not-well-formed:{kind}", f"{got!r}; {ctx}")
            continue
        tree = gen_tab.parsed_tree(got) or []
        if gen_tab.canon(tree) != gen_tab.canon(exp):
            why = "ref-literal-left" if "{" in got else ("absent-ref" if absent_ref else "other")
            if case["mode"] in ("tsv", "file") and any(c in PANDAS_NA_TEXTS for c in rows[i]):
                why = "cell-text-read-as-missing"      # e.g. the HED tag 'None' alone in a cell of a file
            out.bad(f"assembled-annotation-differs:{why}", f"got {got!r} expected tree {exp}; {ctx}")
    # the caller edits a cell: the next assembly must describe the edited table
    edit = case.get("edit")
    hbear = [h for h in t["header"] if h in spec["columns"] and spec["columns"][h]["kind"] == "categorical"]
    if edit is not None and rows and hbear and not out.violations:
        r = edit[0] % len(rows)
        h = hbear[edit[1] % len(hbear)]
        keys = sorted(spec["columns"][h]["entries"]) + ["n/a"]
        newv = keys[edit[2] % len(keys)]
        if newv != rows[r][t["header"].index(h)]:
            why0 = same_frame(snap, tab.dataframe)
            if why0:
                return out.bad(f"table-changed-by-assembly:{why0}", f"dtypes before {snap[1]} after "
                                                                    f"{[str(x) for x in tab.dataframe.dtypes]}")
            try:
                tab.dataframe.iloc[r, list(tab.dataframe.columns).index(h)] = newv
            except Exception as exc:  # noqa  -- the caller's table could be edited before it was assembled
                return out.bad("table-not-editable-after-assembly", repr(exc)[:200])
            rows2 = [list(x) for x in rows]
            rows2[r][t["header"].index(h)] = newv
            exp2 = gen_tab.reference_assemble(spec, t["header"], rows2)
            got2 = [str(x) for x in tab.series_a]
            for i, (g, e) in enumerate(zip(got2, exp2)):
                tree = gen_tab.parsed_tree(g) or []
                if gen_tab.canon(tree) != gen_tab.canon(e):
                    out.bad("assembly-stale-after-table-edit", f"row {i}: got {g!r} expected tree {e} after setting "
                                                               f"{h}[{r}]={newv!r}")
                    break
            out.classes += ("edited-between-calls",)
            if why0:
                out.bad(f"table-changed-by-assembly:{why0}", "")
            return out
    why = same_frame(snap, tab.dataframe)
    if why:
        out.bad(f"table-changed-by-assembly:{why}", f"dtypes before {snap[1]} after "
                                                    f"{[str(x) for x in tab.dataframe.dtypes]}")
    if sidecar.loaded_dict != doc_before or sidecar.loaded_dict != doc:   # doc: as given (spacing included)
        out.bad("sidecar-changed-by-assembly", json.dumps(sidecar.loaded_dict)[:300])
    return out


def describe(case):
    return {"sidecar": respace(gen_tab.sidecar_json(case["spec"]), case.get("spacing", 0)), "table": case["table"],
            "mode": case["mode"]}


def warmup(tier):
    hedenv.schema(VERSION)
    gen_hed.pool(VERSION)


def parts(tier):
    return [Part("assemble", oracle, strategy=strategy(), n=1500 if tier == "quick" else 200000, describe=describe)]
