"""C15 — Search queries obey their documented logic on every annotation."""
import copy

from hypothesis import strategies as st

from vlib.core import Outcome, Part
from vlib import fuzz, gen_hed, hedenv, xmlschema

PROPERTY = "C15"
LEVEL = "exploration"
SHARDS = {"quick": 8, "thorough": 16}
TECHNIQUE = "Hypothesis grammar-generated (annotation, query) pairs: reference evaluator for leaf terms, algebraic " \
            "laws for && / ||, metamorphic sibling permutation, purity; fuzzed query text for the compile clause"
LEVEL_TEXT = ("For generated annotations (depth<=4 over a 24-node vocabulary with repeated tags) and queries from the "
              "documented grammar: bare / quoted / star leaves agree with a reference evaluator built on the XML "
              "model; A||B == A or B; A&&B is symmetric, associative, implies both and, for leaves, holds iff two "
              "distinct tags satisfy them; results are invariant under sibling permutation and repetition; searching "
              "leaves the annotation unchanged; arbitrary query text compiles or raises ValueError, and text with "
              "unbalanced ( ) [ ] { } always raises.")
LEVEL_NOTE = "trusted: the reference leaf evaluator below (schema path terms from vlib/xmlschema.py), Python's bool"
RULE = ("part 'laws': Hypothesis draws an annotation tree and three sub-queries A,B,C from the grammar {term, \"term\", "
        "term*, ?, ??, ???, &&, ||, ~, ( ), [ ], { }, {:}} to depth 3; non-trivial = the composite has a binary "
        "operator and the annotation has a group. part 'compile': Hypothesis text over the query token alphabet; "
        "non-trivial = contains a grouping symbol.")
ASSUMPTIONS = ["bare terms contain no '/' (a slash switches the engine to exact-tag mode by design)",
               "negation of wildcards and negation inside {a: b} groups are documented restrictions and are not "
               "generated as well-formed queries", "schema 8.3.0"]

VERSION = "8.3.0"
VOCAB = ["Event", "Sensory-event", "Agent-action", "Data-feature", "Action", "Move", "Walk", "Communicate", "Red",
         "Blue", "Green", "Item", "Object", "Sound", "Agent", "Human-agent", "Task-property", "Attentive",
         "Label", "Item-count", "Age", "Square", "Triangle", "Building"]
VALUES = {"Label": ["abc", "xyz", "Red"], "Item-count": ["3", "12"], "Age": ["30"]}
ABSENT_TERMS = ["zebra", "qqq", "onset"]

_ctx = {}


def ctx():
    if not _ctx:
        m = xmlschema.model(hedenv.xml_path(VERSION))
        nodes = [m.by_short[v.casefold()][0] for v in VOCAB]
        terms = sorted({t.casefold() for n in nodes for t in n.long.split("/")}) + ABSENT_TERMS
        _ctx.update(m=m, nodes=nodes, terms=terms)
    return _ctx


@st.composite
def tag(draw):
    c = ctx()
    n = c["nodes"][draw(st.integers(0, len(c["nodes"]) - 1))]
    paths = c["m"].suffix_paths(n)
    sp = paths[draw(st.integers(0, len(paths) - 1))]
    suffix = ""
    if n.short in VALUES:
        suffix = "/" + draw(st.sampled_from(VALUES[n.short]))
    return {"t": sp + suffix, "node": n.long, "short": n.short + suffix}


@st.composite
def tree(draw, depth):
    n = draw(st.integers(1, 4))
    out = []
    for _ in range(n):
        if depth > 0 and draw(st.integers(0, 2)) == 0:
            out.append({"g": draw(tree(depth - 1))})
        else:
            out.append(draw(tag()))
    flat_tags = [c for c in out if "g" not in c]
    if flat_tags and draw(st.integers(0, 3)) == 0:     # an equal sibling (possibly in another spelling)
        src = flat_tags[draw(st.integers(0, len(flat_tags) - 1))]
        c = ctx()
        node = c["m"].by_long[src["node"].casefold()]
        paths = c["m"].suffix_paths(node)
        sp = paths[draw(st.integers(0, len(paths) - 1))]
        dup = dict(src, t=sp + src["short"][len(node.short):])
        out.insert(draw(st.integers(0, len(out))), dup)
    return out


@st.composite
def leaf(draw):
    c = ctx()
    kind = draw(st.sampled_from(["bare", "bare", "quoted", "star", "?", "??", "???"]))
    if kind == "bare":
        if draw(st.integers(0, 2)) == 0:
            return draw(st.sampled_from(["red", "abc", "xyz", "3", "label", "item-count"]))  # words that occur as values
        return draw(st.sampled_from(c["terms"]))
    if kind in ("?", "??", "???"):
        return kind
    n = c["nodes"][draw(st.integers(0, len(c["nodes"]) - 1))]
    text = n.short
    if n.short in VALUES and draw(st.booleans()):
        text += "/" + draw(st.sampled_from(VALUES[n.short]))
    if kind == "quoted":
        return '"' + draw(st.sampled_from([text, text.lower(), text.upper()])) + '"'
    k = draw(st.integers(1, len(text)))
    return text[:k].rstrip("/") + "*"


@st.composite
def leaf_for(draw, tg):
    """A leaf query that matches the given tag of the annotation: a term of its path, its quoted short form, or a
    prefix of it with a star."""
    c = ctx()
    node = c["m"].by_long[tg["node"].casefold()]
    kind = draw(st.sampled_from(["term", "quoted", "star"]))
    if kind == "term":
        terms = node.long.split("/")
        return terms[draw(st.integers(0, len(terms) - 1))].casefold()
    text = tg["short"]
    if kind == "quoted":
        return '"' + draw(st.sampled_from([text, text.lower(), text.upper()])) + '"'
    k = draw(st.integers(1, len(text)))
    return text[:k].rstrip("/") + "*"


@st.composite
def query(draw, depth, allow_neg=True, allow_wild=True):
    if depth == 0 or draw(st.integers(0, 3)) == 0:
        q = draw(leaf())
        if not allow_wild and "?" in q:
            q = draw(st.sampled_from(ctx()["terms"]))
        return q
    kind = draw(st.sampled_from(["and", "or", "neg", "paren", "desc", "exact", "exact_only", "exact_opt"]))
    if kind == "and":
        return f"{draw(query(depth - 1, allow_neg, allow_wild))} && {draw(query(depth - 1, allow_neg, allow_wild))}"
    if kind == "or":
        return f"({draw(query(depth - 1, allow_neg, allow_wild))} || {draw(query(depth - 1, allow_neg, allow_wild))})"
    if kind == "neg" and allow_neg:
        return f"~({draw(query(depth - 1, True, False))})"
    if kind == "paren":
        return f"({draw(query(depth - 1, allow_neg, allow_wild))})"
    if kind == "desc":
        return f"[{draw(query(depth - 1, allow_neg, allow_wild))}]"
    if kind == "exact":
        return "{" + draw(query(depth - 1, allow_neg, allow_wild)) + "}"
    if kind == "exact_only":
        return "{" + draw(query(depth - 1, False, allow_wild)) + ":}"
    if kind == "exact_opt":
        return "{" + draw(query(depth - 1, False, allow_wild)) + ": " + draw(query(depth - 1, False, allow_wild)) + "}"
    return draw(leaf())


def render(children):
    return ", ".join("(" + render(c["g"]) + ")" if "g" in c else c["t"] for c in children)


def flat(children):
    for c in children:
        if "g" in c:
            yield from flat(c["g"])
        else:
            yield c


def permuted(children, rnd):
    out = [dict(c, g=permuted(c["g"], rnd)) if "g" in c else c for c in children]
    rnd.shuffle(out)
    return out


@st.composite
def laws_case(draw):
    t = draw(tree(3))
    a, b, c3 = draw(query(2)), draw(query(2)), draw(query(1))
    la, lb = draw(leaf()), draw(leaf())
    present = list(flat(t))
    if present and draw(st.integers(0, 2)) == 0:
        # both leaves aimed at tags that are there: the same tag twice (must not satisfy a conjunction) or two tags
        x = present[draw(st.integers(0, len(present) - 1))]
        y = x if draw(st.booleans()) else present[draw(st.integers(0, len(present) - 1))]
        la, lb = draw(leaf_for(x)), draw(leaf_for(y))
        if draw(st.integers(0, 2)) == 0:
            # both tags twice, with the same text, as siblings at the top level (two ways to satisfy LA && LB)
            for extra in (x, y, x, y):
                t.insert(draw(st.integers(0, len(t))), dict(extra))
    return {"tree": t, "A": a, "B": b, "C": c3, "LA": la, "LB": lb, "perm_seed": draw(st.integers(0, 10 ** 6))}


def leaf_matches(q, tags):
    """Reference: list of indices of tags matching the leaf query (bare / quoted / star)."""
    c = ctx()
    out = []
    for i, t in enumerate(tags):
        node = c["m"].by_long[t["node"].casefold()]
        if q.startswith('"'):
            ok = q[1:-1].casefold() == t["short"].casefold()
        elif q.endswith("*"):
            ok = t["short"].casefold().startswith(q[:-1].casefold())
        else:
            ok = q.casefold() in [x.casefold() for x in node.long.split("/")]
        if ok:
            out.append(i)
    return out


def run(q, hs):
    from hed.models.query_handler import QueryHandler
    return bool(QueryHandler(q).search(hs))


def compiles(q):
    from hed.models.query_handler import QueryHandler
    try:
        QueryHandler(q)
        return True
    except ValueError:
        return False


def oracle_laws(case):
    from hed.models import HedString
    import random
    out = Outcome()
    sch = hedenv.schema(VERSION)
    text = render(case["tree"])
    hs = HedString(text, sch)
    before = (str(hs), hs.get_as_long())
    A, B, C, LA, LB = case["A"], case["B"], case["C"], case["LA"], case["LB"]
    has_group = any("g" in c for c in case["tree"])
    out.nontrivial = has_group
    rejected = [q for q in (A, B, C) if not compiles(q)]
    if rejected:
        out.classes = ("subquery-rejected",)
        A, B, C = LA, LB, LA
        if not (compiles(A) and compiles(B)):
            return out.bad("leaf-query-rejected", f"{LA!r} / {LB!r}")
    ctxs = f"annotation {text!r}"
    try:
        ra, rb, rc = run(A, hs), run(B, hs), run(C, hs)
        r_or = run(f"({A}) || ({B})", hs)
        r_and = run(f"({A}) && ({B})", hs)
        r_and_rev = run(f"({B}) && ({A})", hs)
        r_l = run(f"(({A}) && ({B})) && ({C})", hs)
        r_r = run(f"({A}) && (({B}) && ({C}))", hs)
        again = run(A, hs)
    except Exception as exc:  # noqa
        from vlib.core import crash_signature
        return out.bad(crash_signature(exc, "search-raises") or f"search-raises:{type(exc).__name__}",
                       f"{exc!r}: A={A!r} B={B!r} C={C!r}; {ctxs}")
    if r_or != (ra or rb):
        out.bad("or-differs-from-disjunction", f"A={A!r}->{ra} B={B!r}->{rb} A||B->{r_or}; {ctxs}")
    if r_and != r_and_rev:
        out.bad("and-not-symmetric", f"A={A!r} B={B!r}: {r_and} vs {r_and_rev}; {ctxs}")
    if r_and and not (ra and rb):
        out.bad("and-without-both", f"A={A!r}->{ra} B={B!r}->{rb} A&&B->{r_and}; {ctxs}")
    try:
        if run(f"(({A}) || ({B})) && ({C})", hs) != run(f"(({B}) || ({A})) && ({C})", hs):
            out.bad("or-operand-order-matters-inside-and", f"A={A!r} B={B!r} C={C!r}; {ctxs}")
    except Exception as exc:  # noqa
        return out.bad("search-raises:or-in-and", f"{exc!r}: A={A!r} B={B!r} C={C!r}; {ctxs}")
    if r_l != r_r:
        out.bad("and-not-associative", f"A={A!r} B={B!r} C={C!r}: {r_l} vs {r_r}; {ctxs}")
    if again != ra:
        out.bad("repeated-search-differs", f"A={A!r}; {ctxs}")
    # leaf semantics against the reference
    tags = list(flat(case["tree"]))
    for q in (LA, LB):
        if "?" in q:
            continue
        exp = bool(leaf_matches(q, tags))
        got = run(q, hs)
        if exp != got:
            kind = "quoted" if q.startswith('"') else ("star" if q.endswith("*") else "bare")
            out.bad(f"leaf-{kind}-differs-from-reference", f"{q!r}: got {got} expected {exp}; {ctxs}")
    if "?" not in LA and "?" not in LB:
        ma, mb = leaf_matches(LA, tags), leaf_matches(LB, tags)
        exp = any(i != j for i in ma for j in mb)
        got = run(f"{LA} && {LB}", hs)
        if exp != got:
            out.bad("leaf-and-needs-two-distinct-tags", f"{LA!r} && {LB!r}: got {got} expected {exp} "
                                                        f"(matches {ma} / {mb}); {ctxs}")
        out.classes += ("leaf-and:" + ("same-tag-only" if ma and mb and not exp else "other"),)
        # the same four conjuncts grouped in three ways (&& is associative)
        try:
            four = [run(f"({LA} && {LB}) && ({LA} && {LB})", hs), run(f"{LA} && ({LB} && ({LA} && {LB}))", hs),
                    run(f"(({LA} && {LB}) && {LA}) && {LB}", hs)]
        except Exception as exc:  # noqa
            return out.bad("search-raises:four-conjuncts", f"{exc!r}: {LA!r} {LB!r}; {ctxs}")
        if len(set(four)) != 1:
            out.bad("and-not-associative:four-leaf-conjuncts", f"{LA!r} && {LB!r} twice, grouped (ab)(ab) / a(b(ab)) / "
                                                               f"((ab)a)b: {four}; {ctxs}")
        if four[0]:
            out.classes += ("four-conjuncts:matched",)
        exp3 = any(len({i, j, k}) == 3 for i in ma for j in mb for k in ma)
        got3 = run(f"{LA} && {LB} && {LA}", hs)
        # only the 'only if' direction is stated (matches only via distinct tags): the engine additionally wants the
        # three tags under distinct children of one group, which the statement neither requires nor forbids
        if got3 and not exp3:
            out.bad("leaf-triple-and-matched-without-three-distinct-tags",
                    f"{LA!r} && {LB!r} && {LA!r}: matched although the matching tags are {ma} / {mb}; {ctxs}")
        if ma and mb and not exp3:
            out.classes += ("triple-and:too-few-distinct",)
    # searching never alters the annotation
    if (str(hs), hs.get_as_long()) != before:
        out.bad("annotation-changed-by-search", f"{before} -> {(str(hs), hs.get_as_long())}")
    # sibling permutation
    rnd = random.Random(case["perm_seed"])
    ptext = render(permuted(copy.deepcopy(case["tree"]), rnd))
    # one compiled query searched on several annotations answers like a freshly compiled one
    try:
        from hed.models.query_handler import QueryHandler
        qa = QueryHandler(A)
        hp0 = HedString(ptext, sch)
        seq = [bool(qa.search(hs)), bool(qa.search(hp0)), bool(qa.search(hs))]
        if seq[0] != ra or seq[2] != ra or seq[1] != run(A, hp0):
            out.bad("compiled-query-reused-differs", f"A={A!r}: {seq} vs fresh {ra}; {ctxs} / {ptext!r}")
    except Exception as exc:  # noqa
        return out.bad("search-raises:reused-handler", f"{exc!r} {A!r} {ptext!r}")
    if ptext != text:
        hp = HedString(ptext, sch)
        for name, q, r in (("A", A, ra), ("A&&B", f"({A}) && ({B})", r_and), ("A||B", f"({A}) || ({B})", r_or)):
            try:
                rp = run(q, hp)
            except Exception as exc:  # noqa
                return out.bad("search-raises:permuted", f"{exc!r} {q!r} {ptext!r}")
            if rp != r:
                out.bad("result-depends-on-sibling-order", f"{q!r}: {r} on {text!r} vs {rp} on {ptext!r}")
                break
    return out


# ------------------------------------------------------------------------------------------------------------
TOKENS = ["(", ")", "[", "]", "{", "}", ":", "&&", "||", "~", ",", "?", "??", "???", " ", "Event", "red", "\"Red\"",
          "Blu*", "@", "\"", "Label/abc", "[[", "]]", "a", "&", "|", "Def/x/*"]
compile_text = st.lists(st.one_of(st.sampled_from(TOKENS), st.sampled_from(TOKENS), st.characters(
    exclude_categories=["Cs"])), max_size=12).map("".join)


def balanced(text):
    pairs = {")": "(", "]": "[", "}": "{"}
    stack = []
    for ch in text:
        if ch in "([{":
            stack.append(ch)
        elif ch in pairs:
            if not stack or stack.pop() != pairs[ch]:
                return False
    return not stack


def oracle_compile(text):
    from hed.models.query_handler import QueryHandler
    out = Outcome()
    out.nontrivial = any(ch in text for ch in "()[]{}")
    bal = balanced(text)
    out.classes = ("balanced" if bal else "unbalanced",)
    try:
        QueryHandler(text)
        ok = True
    except ValueError:
        ok = False
    except Exception as exc:  # noqa  -- only the documented parse error is allowed
        from vlib.core import crash_signature
        return out.bad(crash_signature(exc, "compile-raises") or f"compile-raises:{type(exc).__name__}",
                       f"{text!r}: {exc!r}")
    if ok and not bal:
        out.bad("unbalanced-query-compiles", f"{text!r}")
    return out


@st.composite
def broken_query(draw):
    """A grammar-generated query with one grouping symbol removed, replaced by another kind, or one added."""
    q = draw(query(3))
    idx = [i for i, ch in enumerate(q) if ch in "()[]{}"]
    mode = draw(st.integers(0, 3))
    if idx and mode == 0:
        i = idx[draw(st.integers(0, len(idx) - 1))]
        return q[:i] + q[i + 1:]
    if idx and mode == 1:
        # one grouping symbol replaced by another kind (a closer of the wrong kind, an opener of the wrong kind, ...)
        i = idx[draw(st.integers(0, len(idx) - 1))]
        other = draw(st.sampled_from([c for c in "()[]{}" if c != q[i]]))
        return q[:i] + other + q[i + 1:]
    pos = draw(st.integers(0, len(q)))
    while 0 < pos < len(q) and q[pos - 1] not in " ()[]{}:" and q[pos] not in " ()[]{}:":
        pos += 1            # never split a term
    return q[:pos] + draw(st.sampled_from(list("()[]{}"))) + q[pos:]


def oracle_broken(text):
    out = oracle_compile(text)
    out.classes += ("from-grammar",)
    return out


def warmup(tier):
    hedenv.schema(VERSION)
    ctx()


def parts(tier):
    q = tier == "quick"
    return [Part("laws", oracle_laws, strategy=laws_case(), n=3000 if q else 128000),
            Part("compile", oracle_compile, strategy=compile_text, n=5000 if q else 200000),
            Part("unbalanced-from-grammar", oracle_broken, strategy=broken_query(), n=2000 if q else 64000)] + \
        ([] if q else [Part("coverage-guided", oracle_compile, enumerate_fn=fuzz.make_enum("c15", 150000, 48),
                            distinct_by_construction=False)])


def extra_evidence(tier):
    return {"coverage_guided_engine": ("atheris campaigns per shard; corpus and objections replayed through the oracle"
                                       if tier != "quick" and fuzz.available() else
                                       ("not used in the quick tier" if tier == "quick" else "atheris not installed: part empty"))}
