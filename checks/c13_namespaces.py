"""C13 — Library schemas and namespaces compose without changing meaning."""
import copy
import itertools
from collections import Counter

from hypothesis import strategies as st

from vlib.core import Outcome, Part
from vlib import gen_hed, gen_schema, hedenv, xmlschema

PROPERTY = "C13"
LEVEL = "exploration"
SHARDS = {"quick": 8, "thorough": 16}
TECHNIQUE = "differential testing across schema configurations (Hypothesis annotations validated against a prefixed " \
            "group vs the schema alone), exhaustive vocabulary comparison of partnered libraries, enumerated refusals"
LEVEL_TEXT = ("Generated valid and single-fault annotations over a schema's vocabulary are validated (a) with every tag "
              "prefixed, against a group holding that schema under the prefix, and (b) unprefixed against the schema "
              "alone: the multisets of error codes must be equal; likewise unprefixed annotations against group vs "
              "unprefixed schema alone; unknown / non-alphabetic prefixes must give TAG_NAMESPACE_PREFIX_INVALID; every "
              "standard node must be present with unchanged attributes in each partnered library (exhaustive); "
              "loading a library twice or two libraries with clashing names under one prefix must raise HedFileError "
              "(all pairs enumerated); a schema object re-prefixed after use must behave like a freshly prefixed one.")
LEVEL_NOTE = "trusted: vlib/xmlschema.py for the vocabulary comparison and the clash prediction"
RULE = ("part 'differential': Hypothesis (pairing, annotation from the C01 grammar, optional tree mutation, prefix "
        "mode); non-trivial = >=2 tags incl. a library-only node or a mutation. part 'vocabulary': every standard "
        "node x every partnered library (enumerated). part 'refusal': every ordered pair of bundled libraries x "
        "{no prefix, prefix} (enumerated). part 'reprefix': operation sequences on one schema object.")
ASSUMPTIONS = ["no bundled schema declares a 'required' node (asserted from the XML at start-up), so no cross-namespace "
               "requirement exists", "pairings are those loadable offline"]

PAIRINGS = {   # name -> (group spec, prefixed member alone, unprefixed member alone, prefix)
    "8.3.0+sc:score_2.0.0": (("8.3.0", "sc:score_2.0.0"), "score_2.0.0", "8.3.0", "sc:"),
    "8.2.0+sc:score_1.1.0": (("8.2.0", "sc:score_1.1.0"), "score_1.1.0", "8.2.0", "sc:"),
    "8.2.0+tl:testlib_2.0.0": (("8.2.0", "tl:testlib_2.0.0"), "testlib_2.0.0", "8.2.0", "tl:"),
    "8.2.0+tl:testlib_3.0.0": (("8.2.0", "tl:testlib_3.0.0"), "testlib_3.0.0", "8.2.0", "tl:"),
    "8.3.0+sc:score_2.0.0+tl:testlib_2.1.0": (("8.3.0", "sc:score_2.0.0", "tl:testlib_2.1.0"), "testlib_2.1.0",
                                              "8.3.0", "tl:"),
    "score_2.0.0+st:8.3.0": (("score_2.0.0", "st:8.3.0"), "8.3.0", "score_2.0.0", "st:"),
    "8.2.0+TL:testlib_2.0.0": (("8.2.0", "TL:testlib_2.0.0"), "testlib_2.0.0", "8.2.0", "TL:"),   # upper-case prefix
    # members of different schema generations (text rules differ between 8.2.0 and 8.3.0)
    "8.2.0+sc:score_2.0.0": (("8.2.0", "sc:score_2.0.0"), "score_2.0.0", "8.2.0", "sc:"),
    "8.3.0+sc:score_1.1.0": (("8.3.0", "sc:score_1.1.0"), "score_1.1.0", "8.3.0", "sc:"),
}
QUICK = ["8.3.0+sc:score_2.0.0", "8.2.0+tl:testlib_3.0.0", "8.2.0+TL:testlib_2.0.0"]
# pairings of different generations: only the text-rule probes are run on them (the known finding above would
# otherwise resurface under many signatures of the random differential part)
MIXED = ["8.2.0+sc:score_2.0.0", "8.3.0+sc:score_1.1.0"]


def prefix_tree(tree, p):
    out = []
    for c in tree:
        if gen_hed.is_group(c):
            d = dict(c)
            d["g"] = prefix_tree(c["g"], p)
            out.append(d)
        else:
            d = dict(c)
            d["t"] = p + c["t"]
            out.append(d)
    return out


def prefix_defs(defs, p):
    out = []
    for d in defs:
        nm = d["name"] + ("/#" if d["takes"] else "")
        out.append(f"({p}Definition/{nm}, ({gen_hed.render(prefix_tree(d['content'], p))}))")
    return out


@st.composite
def differential_case(draw, names):
    start = draw(st.integers(0, len(gen_hed.TREE_MUTATIONS) - 1))
    name = draw(st.sampled_from(names))
    group_spec, pref_alone, unpref_alone, p = PAIRINGS[name]
    side = draw(st.sampled_from(["prefixed", "prefixed", "unprefixed"]))
    version = pref_alone if side == "prefixed" else unpref_alone
    ann = draw(gen_hed.annotation(version, allow_placeholder=False, max_depth=2))
    tree, mutation = ann["tree"], None
    if draw(st.booleans()):
        mut = draw(gen_hed.mutated(ann, kinds=gen_hed.TREE_MUTATIONS, start=start))
        tree, mutation = mut["tree"], mut["mutation"]
    m = gen_hed.pool(version).m
    lib_only = any(t.get("node") and "inLibrary" in m.by_long[t["node"].casefold()].inherited
                   for t in gen_hed.flatten(tree))
    pp = p if side == "prefixed" else ""
    order = list(draw(st.permutations(range(len(group_spec)))))
    return {"pairing": name, "side": side, "alone": version, "mutation": mutation, "order": order,
            "text_alone": gen_hed.render(tree), "defs_alone": gen_hed.def_strings(ann["defs"]),
            "text_group": gen_hed.render(prefix_tree(tree, pp)), "defs_group": prefix_defs(ann["defs"], pp),
            "lib_only": lib_only, "ntags": gen_hed.count_tags(tree),
            "first_tag": next(iter(gen_hed.flatten(ann["tree"])))["t"]}


def codes(text, defs, schema, with_warnings=False):
    from hed.models import HedString
    from hed.models.definition_dict import DefinitionDict
    dd = DefinitionDict(defs, schema) if defs else None
    issues = HedString(text, schema, def_dict=dd).validate(allow_placeholders=False)
    if with_warnings:
        return Counter((i["code"], i["severity"]) for i in issues)
    return Counter(i["code"] for i in issues if i["severity"] == 1)


def _generation(version):
    """'8.3+' or 'pre-8.3' for a standard version or the standard partner of a library."""
    std = hedenv.PARTNERED.get(version, version)
    parts = tuple(int(x) for x in std.split(".")[:2])
    return "8.3+" if parts >= (8, 3) else "pre-8.3"


TEXT_PROBES = ["Label/Caf\u00e9", "Red, Label/na\u00efve-x", "(Label/\u65e5\u672c, Blue)", "Label/a$b", "Label/x y"]
_probed = set()


def oracle_differential(case):
    out = Outcome()
    spec = PAIRINGS[case["pairing"]][0]
    group = hedenv.schema(tuple(spec[i] for i in case.get("order", range(len(spec)))))   # any order of the version list
    alone = hedenv.schema(case["alone"])
    a = codes(case["text_alone"], case["defs_alone"], alone)
    g = codes(case["text_group"], case["defs_group"], group)
    out.nontrivial = case["ntags"] >= 2 and (case["lib_only"] or bool(case["mutation"]))
    out.classes = ("side:" + case["side"], "list-order:" + "".join(map(str, case.get("order", [])))) + \
                  (("library-node",) if case["lib_only"] else ()) + \
                  (("mutated",) if case["mutation"] else ())
    if a == g:
        # "judged exactly as": the warnings agree too
        aw = codes(case["text_alone"], case["defs_alone"], alone, True)
        gw = codes(case["text_group"], case["defs_group"], group, True)
        if aw != gw:
            diff = sorted({c for c, _ in set((aw - gw) | (gw - aw))})
            out.bad(f"group-warnings-differ:{case['side']}:" + "+".join(diff),
                    f"{case['pairing']}: alone({case['alone']}) {case['text_alone']!r} -> {dict(aw)}; group "
                    f"{case['text_group']!r} -> {dict(gw)}")
    # expanding definitions under a prefix gives the prefixed form of what the schema alone gives
    if case["defs_alone"] and not case["mutation"] and "Def/" in case["text_alone"]:
        from hed.models import HedString
        from hed.models.definition_dict import DefinitionDict
        try:
            ha = HedString(case["text_alone"], alone, def_dict=DefinitionDict(case["defs_alone"], alone))
            hg = HedString(case["text_group"], group, def_dict=DefinitionDict(case["defs_group"], group))
            ha.expand_defs()
            hg.expand_defs()
            pp_ = PAIRINGS[case["pairing"]][3] if case["side"] == "prefixed" else ""
            want = gen_hed_text_prefix(str(ha), pp_).replace(" ", "")
            if str(hg).replace(" ", "") != want:
                out.bad(f"expansion-differs-under-prefix:{case['side']}", f"{case['pairing']}: {str(hg)!r} expected "
                                                                          f"{want!r}")
            ha.shrink_defs()
            hg.shrink_defs()
            want = gen_hed_text_prefix(str(ha), pp_).replace(" ", "")
            if str(hg).replace(" ", "") != want:
                out.bad(f"shrinking-differs-under-prefix:{case['side']}", f"{case['pairing']}: {str(hg)!r} expected "
                                                                          f"{want!r}")
            out.classes += ("expanded",)
        except Exception as exc:  # noqa
            from vlib.core import crash_signature
            out.bad(crash_signature(exc, "expansion-raises") or f"expansion-raises:{type(exc).__name__}",
                    f"{case['pairing']}: {case['text_group']!r}: {exc!r}")
    if a != g:
        diff = sorted(set((a - g) | (g - a)))
        out.bad(f"group-verdict-differs:{case['side']}:" + "+".join(diff),
                f"{case['pairing']}: alone({case['alone']}) {case['text_alone']!r} -> {dict(a)}; group "
                f"{case['text_group']!r} -> {dict(g)}; defs={case['defs_group']}")
    # text rules (which characters a value may hold) belong to the member schema, not to the group
    for pairing_ in ([case["pairing"]] + MIXED):
        if pairing_ in _probed:
            continue
        _probed.add(pairing_)
        spec_, pref_alone_, unpref_alone_, p_ = PAIRINGS[pairing_]
        group_ = hedenv.schema(spec_)
        for probe in TEXT_PROBES:
            for member, pp_ in ((unpref_alone_, ""), (pref_alone_, p_)):
                alone_codes = codes(probe, [], hedenv.schema(member))
                group_codes = codes(gen_hed_text_prefix(probe, pp_), [], group_)
                if alone_codes != group_codes:
                    gens = {_generation(v.split(":")[-1]) for v in spec_}
                    kind = "mixed-generations" if len(gens) > 1 else "same-generation"
                    out.bad(f"group-verdict-differs:text-rules:{kind}", f"{pairing_}: "
                            f"{gen_hed_text_prefix(probe, pp_)!r} -> {dict(group_codes)}; {probe!r} against {member} "
                            f"alone -> {dict(alone_codes)}")
    # a prefix that is not loaded, or not alphabetic, is an error
    if case["side"] == "prefixed" and not case["mutation"]:
        first = case["first_tag"]
        for bad in ("xx:", "s1:", "s-c:"):
            c = codes(f"{bad}{first}", [], group)
            if "TAG_NAMESPACE_PREFIX_INVALID" not in c:
                out.bad("bad-prefix-not-reported", f"{bad}{first!r} -> {dict(c)}")
            # ... also when a single schema (no prefix, or one prefix) is all that is loaded
            c = codes(f"{bad}{first}", [], alone)
            if "TAG_NAMESPACE_PREFIX_INVALID" not in c:
                out.bad("bad-prefix-not-reported:single-schema", f"{case['alone']}: {bad}{first!r} -> {dict(c)}")
            single = hedenv.schema("zz:" + case["alone"])
            for t in (f"{bad}{first}", first):
                c = codes(t, [], single)
                if "TAG_NAMESPACE_PREFIX_INVALID" not in c:
                    out.bad("bad-prefix-not-reported:single-prefixed-schema", f"zz:{case['alone']}: {t!r} -> {dict(c)}")
            c = codes(f"zz:{first}", [], single)
            if c != codes(first, [], alone):
                out.bad("loaded-prefix-rejected:single-prefixed-schema", f"zz:{case['alone']}: zz:{first!r} -> {dict(c)}")
    return out


# ------------------------------------------------------------------------------------------------------------
def make_vocab_enum(libs):
    def enum(shard, nshards):
        def gen():
            for lib in libs:
                std = hedenv.PARTNERED[lib]
                m_std = xmlschema.model(hedenv.xml_path(std))
                for node in m_std.nodes:
                    yield (lib, std, node.long)
        return itertools.islice(gen(), shard, None, nshards)
    return enum


def oracle_vocab(case):
    lib, std, long_name = case
    out = Outcome(nontrivial=True)
    s_lib, s_std = hedenv.schema(lib), hedenv.schema(std)
    e_std = s_std.tags.get(long_name)
    e_lib = s_lib.tags.get(long_name)
    if e_lib is None:
        return out.bad("standard-node-missing-in-library", f"{lib}: {long_name}")
    a_std = {k: v for k, v in e_std.attributes.items()}
    a_lib = {k: v for k, v in e_lib.attributes.items() if k != "inLibrary"}
    if a_std != a_lib:
        out.bad("standard-node-attributes-changed", f"{lib}: {long_name}: {a_std} vs {a_lib}")
    if e_lib.has_attribute("inLibrary"):
        out.bad("standard-node-marked-inLibrary", f"{lib}: {long_name}")
    if set(e_std.unit_classes) != set(e_lib.unit_classes) or set(e_std.value_classes) != set(e_lib.value_classes):
        out.bad("standard-node-classes-changed", f"{lib}: {long_name}")
    if (e_std.takes_value_child_entry is None) != (e_lib.takes_value_child_entry is None):
        out.bad("standard-node-placeholder-changed", f"{lib}: {long_name}")
    return out


# ------------------------------------------------------------------------------------------------------------
def lib_only_shorts(version):
    m = xmlschema.model(hedenv.xml_path(version))
    return {n.short.casefold() for n in m.nodes if "inLibrary" in n.inherited}


def make_refusal_enum():
    libs = list(hedenv.PARTNERED)

    def enum(shard, nshards):
        def gen():
            for a in libs:
                for b in libs:
                    for pfx in ("", "qq:"):
                        yield (a, b, pfx)
        return itertools.islice(gen(), shard, None, nshards)
    return enum


def oracle_refusal(case):
    from hed.schema import load_schema_version
    from hed.errors.exceptions import HedFileError
    a, b, pfx = case
    out = Outcome(nontrivial=True)
    same_std = hedenv.PARTNERED[a] == hedenv.PARTNERED[b]
    if a == b:
        expect = "refuse"
    elif not same_std:
        expect = "refuse"       # libraries partnered with different standard versions cannot be merged
    elif lib_only_shorts(a) & lib_only_shorts(b):
        expect = "refuse"
    else:
        expect = "load"
    out.classes = ("expect:" + expect,)
    spec = [f"{pfx}{a}", f"{pfx}{b}"]
    try:
        s = load_schema_version(spec)
        got = "load"
    except HedFileError:
        got = "refuse"
    except Exception as exc:  # noqa
        from vlib.core import crash_signature
        return out.bad(crash_signature(exc, "load-raises-other") or f"load-raises-other:{type(exc).__name__}",
                       f"{spec}: {exc!r}")
    if got != expect:
        out.bad(f"library-pair-{got}-expected-{expect}:{'same' if a == b else 'clash'}", f"{spec}")
    return out


# ------------------------------------------------------------------------------------------------------------
# generated libraries (served from a folder): clashes that no bundled pair has - the same short name at different paths
_CUSTOM = {}


def custom_folder():
    """Four tiny libraries partnered with 8.2.0: alib Alpha-things/Gadget, blib Beta-things/Gadget (same short name,
    other path), clib Gamma-things/Widget (no clash), dlib Alpha-things/Gadget (same path as alib)."""
    import os
    import tempfile
    if "dir" not in _CUSTOM:
        d = tempfile.mkdtemp(prefix="c13_libs_", dir=os.environ.get("HOME"))

        def prune(parent):
            for n in list(parent.findall("node")):
                if gen_schema.attr_elems(n, "inLibrary"):
                    parent.remove(n)
                else:
                    prune(n)
        for lib, top, leaf in (("alib", "Alpha-things", "Gadget"), ("blib", "Beta-things", "Gadget"),
                               ("clib", "Gamma-things", "Widget"), ("dlib", "Alpha-things", "Gadget")):
            r = gen_schema.clone("testlib_2.0.0")
            r.set("library", lib)
            r.set("version", "1.0.0")
            prune(r.find("schema"))
            t = gen_schema.new_node(top, "top node")
            gen_schema.add_attr(t, "inLibrary", lib)
            leaf_node = gen_schema.new_node(leaf, "leaf")
            gen_schema.add_attr(leaf_node, "inLibrary", lib)
            t.append(leaf_node)
            r.find("schema").append(t)
            with open(os.path.join(d, f"HED_{lib}_1.0.0.xml"), "w", encoding="utf-8") as fp:
                fp.write(gen_schema.to_string(r))
        _CUSTOM["dir"] = d
    return _CUSTOM["dir"]


CUSTOM_CLASH = {frozenset(("alib", "blib")), frozenset(("alib", "dlib")), frozenset(("blib", "dlib"))}


def make_custom_enum():
    libs = ["alib", "blib", "clib", "dlib"]

    def enum(shard, nshards):
        def gen():
            for a in libs:
                for b in libs:
                    for pfx in ("", "qq:"):
                        yield (a, b, pfx)
        return itertools.islice(gen(), shard, None, nshards)
    return enum


def oracle_custom(case):
    from hed.schema import load_schema_version
    from hed.errors.exceptions import HedFileError
    a, b, pfx = case
    out = Outcome(nontrivial=True)
    expect = "refuse" if a == b or frozenset((a, b)) in CUSTOM_CLASH else "load"
    out.classes = ("expect:" + expect, "custom-libraries")
    spec = [f"{pfx}{a}_1.0.0", f"{pfx}{b}_1.0.0"]
    try:
        load_schema_version(spec, xml_folder=custom_folder())
        got = "load"
    except HedFileError:
        got = "refuse"
    except Exception as exc:  # noqa
        from vlib.core import crash_signature
        return out.bad(crash_signature(exc, "load-raises-other") or f"load-raises-other:{type(exc).__name__}",
                       f"{spec}: {exc!r}")
    if got != expect:
        kind = "same-library" if a == b else ("same-path" if {a, b} == {"alib", "dlib"} else
                                              ("other-path" if expect == "refuse" else "no-clash"))
        out.bad(f"custom-library-pair-{got}-expected-{expect}:{kind}", f"{spec}")
    return out


# ------------------------------------------------------------------------------------------------------------
REPREFIX_TEXTS = ["(Event-context, (Red)), (Event-context, (Blue)), Green", "Red, Blue", "Qzx-unknown, Red",
                  "(Onset, Def/Nope)", "Red, Red"]


@st.composite
def reprefix_case(draw):
    return {"version": draw(st.sampled_from(["8.3.0", "testlib_2.0.0", "8.1.0"])),
            "prefixes": draw(st.lists(st.sampled_from(["", "ts:", "ab:"]), min_size=2, max_size=4)),
            "copy_at": draw(st.integers(0, 4))}


def oracle_reprefix(case):
    """One schema object is given a sequence of namespace prefixes; under each it must judge the (prefixed) texts
    exactly as a never re-prefixed schema judges the plain texts."""
    from hed.schema import load_schema
    out = Outcome()
    ref = hedenv.schema(case["version"])       # never re-prefixed
    expected = {t: codes(t, [], ref) for t in REPREFIX_TEXTS}
    s = load_schema(hedenv.xml_path(case["version"]))
    out.nontrivial = len(set(case["prefixes"])) >= 2
    for step, cur in enumerate(case["prefixes"]):
        if step == case["copy_at"]:
            s = copy.deepcopy(s)
        s.set_schema_prefix(cur)
        for t in REPREFIX_TEXTS:
            pt = gen_hed_text_prefix(t, cur)
            got = codes(pt, [], s)
            if got != expected[t]:
                out.bad("verdict-changes-after-reprefix", f"{case['version']} prefixes={case['prefixes']} now {cur!r}: "
                                                          f"{pt!r} -> {dict(got)} expected {dict(expected[t])}")
                return out
    return out


def gen_hed_text_prefix(text, p):
    if not p:
        return text
    out = ""
    tok = ""
    for ch in text + ",":
        if ch in ",()":
            t = tok.strip()
            if t:
                out += tok.replace(t, p + t, 1)
            else:
                out += tok
            tok = ""
            out += ch
        else:
            tok += ch
    return out[:-1]


def warmup(tier):
    names = (QUICK if tier == "quick" else [n for n in PAIRINGS if n not in MIXED]) + MIXED
    for n in names:
        spec, a, b, p = PAIRINGS[n]
        hedenv.schema(spec)
        hedenv.schema(a)
        hedenv.schema(b)
        gen_hed.pool(a)
        gen_hed.pool(b)
    for v in hedenv.BUNDLED:
        m = xmlschema.model(hedenv.xml_path(v))
        assert not any("required" in n.attrs for n in m.nodes), "a bundled schema declares a required node"


def parts(tier):
    q = tier == "quick"
    names = QUICK if q else [n for n in PAIRINGS if n not in MIXED]
    libs = ["score_2.0.0", "testlib_3.0.0"] if q else list(hedenv.PARTNERED)
    return [Part("differential", oracle_differential, strategy=differential_case(names), n=1500 if q else 160000),
            Part("vocabulary", oracle_vocab, enumerate_fn=make_vocab_enum(libs), exhaustive=True),
            Part("refusal", oracle_refusal, enumerate_fn=make_refusal_enum(), exhaustive=True),
            Part("custom-libraries", oracle_custom, enumerate_fn=make_custom_enum(), exhaustive=True),
            Part("reprefix", oracle_reprefix, strategy=reprefix_case(), n=24 if q else 1600, sharded=True)]
