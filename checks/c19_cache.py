"""C19 — The schema cache never serves or keeps a torn schema file."""
import os
import pickle
import shutil
import tempfile
import time

from hypothesis import strategies as st

from vlib.core import Outcome, Part
from vlib import hedenv

PROPERTY = "C19"
LEVEL = "fault_enumeration"
SHARDS = {"quick": 8, "thorough": 16}
TECHNIQUE = "crash-point enumeration of cache population in forked children, Hypothesis-generated leftover cache " \
            "directories, harness-owned two/three-process schedules (pause points) for population, loading and the lock"
LEVEL_TEXT = ("(a) every interruption point of populating an empty cache (before / inside after k bytes / after each "
              "file copy, before / after each rename) is enumerated: afterwards no file under a schema file name may "
              "differ from the installed file and a fresh process must load the interrupted version, its neighbour and "
              "another version correctly; (b) generated leftover directories (any subset of complete files, stray "
              "partial temporary files, torn or garbage last_update.txt, stale lock file) must load every requested "
              "version; (c) a populator paused at a drawn point (lock held, partial temporary file on disk) while a "
              "second populator and a loader run: the loader never sees a parse error or different content, the "
              "second populator never corrupts anything, the final files are byte-identical; (d) lock holders never "
              "overlap, a blocked holder gives up with CacheException only, a refresh inside the interval is skipped.")
LEVEL_NOTE = ("trusted: the injector wraps shutil.copy / os.replace as seen from hed.schema.hed_cache and kills or "
              "pauses the child process there; schedules are explored at the granularity of these Python-level file "
              "operations between real processes with real flock locks, not at kernel level")
RULE = ("part 'crash': one case per (crash target) enumerated until population completes (~4 points per bundled file); "
        "part 'leftover': Hypothesis directory states; part 'schedule': Hypothesis (pause point, versions to load); "
        "part 'lock': Hypothesis holder scripts with 2-3 processes. Non-trivial: crash strictly inside a copy or "
        "between copy and rename; schedule with the pause inside a copy; lock history with contention.")
ASSUMPTIONS = ["a load that gives up with 'not found' while another process holds the cache lock indefinitely (paused) "
               "is counted, not flagged: the statement forbids failures and differences caused by partially written "
               "files", "process kill = os._exit in the child; no power-loss semantics"]

VERSIONS = hedenv.BUNDLED


def installed_files():
    d = hedenv.SCHEMA_DATA
    return sorted(f for f in os.listdir(d) if f.lower().endswith(".xml"))


def fresh_cache():
    return tempfile.mkdtemp(prefix="c19_", dir=os.environ.get("HOME"))


def read(p):
    with open(p, "rb") as fp:
        return fp.read()


def torn_files(cache):
    """Files under a schema file name whose bytes differ from the installed file."""
    bad = []
    for f in installed_files():
        p = os.path.join(cache, f)
        if os.path.exists(p) and read(p) != read(os.path.join(hedenv.SCHEMA_DATA, f)):
            bad.append((f, os.path.getsize(p)))
    return bad


def fork_run(fn):
    """Run fn() in a forked child with the hed in-memory caches cleared; return ('ok', value) / ('exc', repr)."""
    r, w = os.pipe()
    pid = os.fork()
    if pid == 0:
        os.close(r)
        try:
            from hed.schema import hed_schema_io, hed_cache
            hed_schema_io._load_schema_version.cache_clear()
            hed_cache.get_library_data.cache_clear()
            res = ("ok", fn())
        except BaseException as exc:  # noqa
            code = getattr(exc, "code", None)
            res = ("exc", type(exc).__name__, str(code), str(exc)[:300])
        try:
            os.write(w, pickle.dumps(res))
        finally:
            os._exit(0)
    os.close(w)
    data = b""
    while True:
        chunk = os.read(r, 65536)
        if not chunk:
            break
        data += chunk
    os.close(r)
    os.waitpid(pid, 0)
    return pickle.loads(data) if data else ("exc", "ChildDied", "", "")


def load_and_compare(cache, version):
    """In a fresh process: load `version` by number from `cache` and compare with the installed file."""
    def job():
        import hed.schema as hs
        from hed.schema import load_schema_version, load_schema
        hs.set_cache_directory(cache)
        s = load_schema_version(version)
        ref = load_schema(hedenv.xml_path(version))
        return bool(s == ref)
    return fork_run(job)


def version_of(fname):
    return fname[3:-4].lstrip("_")


def populate_child(cache, target, pause_pipe=None, resume_pipe=None):
    """Populate `cache` in a forked child. At injection point `target` the child is killed (os._exit(9)) or, when
    pipes are given, pauses there. Returns the pid (caller waits)."""
    pid = os.fork()
    if pid:
        return pid
    try:
        from hed.schema import hed_cache
        if isinstance(target, tuple):
            # ("fsize", L): the operating system ends the process inside whichever write first takes a file beyond L
            # bytes (SIGXFSZ) - a crash inside a copy that does not depend on which copy primitive the code uses
            import resource
            import signal
            signal.signal(signal.SIGXFSZ, signal.SIG_DFL)      # Python ignores it by default; we want the kill
            resource.setrlimit(resource.RLIMIT_FSIZE, (target[1], target[1]))
            rc = hed_cache.cache_local_versions(cache)
            os._exit(0 if rc is None else 5)
        counter = {"n": 0}

        def hit(partial=None):
            if counter["n"] == target:
                if partial:
                    partial()
                if pause_pipe is not None:
                    os.write(pause_pipe, b"p")
                    os.read(resume_pipe, 1)
                    counter["n"] += 1
                    return True
                os._exit(9)
            counter["n"] += 1
            return False

        real_copy, real_replace = shutil.copy, os.replace

        class _SH:
            def __getattr__(self, a):
                return getattr(shutil, a)

            @staticmethod
            def copy(src, dst, *a, **k):
                hit()                                                        # before the copy
                data = read(src)
                for cut in (0, 1, len(data) // 2, len(data) - 1):
                    def partial(cut=cut):
                        with open(dst, "wb") as fp:
                            fp.write(data[:cut])
                    hit(partial)                                             # after `cut` bytes
                r = real_copy(src, dst, *a, **k)
                hit()                                                        # after the copy
                return r

        class _OS:
            def __getattr__(self, a):
                return getattr(os, a)

            @staticmethod
            def replace(a, b):
                r = real_replace(a, b)
                hit()                                                        # after the rename
                return r

        hed_cache.shutil = _SH()
        hed_cache.os = _OS()
        rc = hed_cache.cache_local_versions(cache)
        if pause_pipe is not None:
            os.write(pause_pipe, b"d" if rc is None else b"f")
        os._exit(0 if rc is None else 5)
    except BaseException:
        os._exit(3)


def wait(pid):
    _, status = os.waitpid(pid, 0)
    return os.WEXITSTATUS(status) if os.WIFEXITED(status) else -1


# ------------------------------------------------------------------------------------------------------------
def oracle_crash(target):
    out = Outcome()
    cache = fresh_cache()
    try:
        rc = wait(populate_child(cache, target))
        if rc == 3:
            return out.bad("crash-harness-child-failed", f"target {target}")
        if rc == 0:
            out.classes = ("population-completed",)
            missing = [f for f in installed_files() if not os.path.exists(os.path.join(cache, f))]
            if missing:
                out.bad("finished-population-misses-files", str(missing))
        else:
            out.nontrivial = True
            out.classes = ("crashed",)
        torn = torn_files(cache)
        if torn:
            out.bad("torn-file-under-final-name", f"crash point {target}: {torn}")
        files = installed_files()
        per_file = 7
        if isinstance(target, tuple):
            big = [f for f in os.listdir(hedenv.SCHEMA_DATA) if f in files
                   and os.path.getsize(os.path.join(hedenv.SCHEMA_DATA, f)) > target[1]]
            idx = files.index(big[0]) if big else 0
            out.classes += ("killed-by-file-size-limit",)
        else:
            idx = min(target // per_file, len(files) - 1)
        check = {version_of(files[idx]), version_of(files[(idx + 1) % len(files)]), version_of(files[(idx + 5) % len(files)])}
        for v in sorted(check):
            res = load_and_compare(cache, v)
            if res[0] != "ok":
                kind = "parse-error" if "arse" in res[2] + res[3] else ("not-found" if "ound" in res[2] + res[3]
                                                                        else res[1])
                out.bad(f"load-fails-after-interrupted-population:{kind}", f"crash point {target}, version {v}: {res}")
            elif res[1] is not True:
                out.bad("load-returns-different-content", f"crash point {target}, version {v}")
        torn = torn_files(cache)
        if torn:
            out.bad("torn-file-under-final-name:after-loads", f"crash point {target}: {torn}")
    finally:
        shutil.rmtree(cache, ignore_errors=True)
    return out


def crash_enum(tier):
    per_file = 7
    nfiles = len(installed_files())
    total = per_file * nfiles + 2
    if tier == "quick":
        targets = [t for t in range(total) if (t // per_file) in (0, 3, nfiles - 1) or t >= per_file * nfiles]
    else:
        targets = list(range(total))

    sizes = sorted({os.path.getsize(os.path.join(hedenv.SCHEMA_DATA, f)) for f in installed_files()})
    limits = sorted({sz // 2 for sz in sizes} | {sz - 1 for sz in sizes} | {4096})
    if tier == "quick":
        limits = [limits[0], limits[len(limits) // 3], limits[2 * len(limits) // 3], limits[-1]]
    targets = targets + [("fsize", lim) for lim in limits]

    def enum(shard, nshards):
        return iter(targets[shard::nshards])
    return enum


# ------------------------------------------------------------------------------------------------------------
@st.composite
def leftover_case(draw):
    files = installed_files()
    present = [f for f in files if draw(st.integers(0, 2)) > 0]
    stray = []
    for _ in range(draw(st.integers(0, 3))):
        f = draw(st.sampled_from(files))
        stray.append((f + "." + str(draw(st.integers(100, 99999))) + ".tmp", draw(st.sampled_from([0, 1, 500, 70000]))))
    ts = draw(st.sampled_from([None, "", "garbage", "12.5", "1e400", "\x00\x00", "9999999999.0", "-5", "recent"]))
    return {"present": present, "stray": stray, "timestamp": ts, "lock": draw(st.booleans()),
            "load": list(draw(st.sets(st.sampled_from(VERSIONS), min_size=1, max_size=3))),
            "subdir": draw(st.booleans()),
            "merged": draw(st.sampled_from([None, None, ("score_1.1.0", "testlib_2.0.0"),
                                            ("testlib_2.0.0", "score_1.1.0")])),
            "spec_form": draw(st.sampled_from(["list", "string"]))}


def oracle_leftover(case):
    out = Outcome()
    cache = fresh_cache()
    try:
        for f in case["present"]:
            shutil.copy(os.path.join(hedenv.SCHEMA_DATA, f), os.path.join(cache, f))
        for name, size in case["stray"]:
            src = read(os.path.join(hedenv.SCHEMA_DATA, name.split(".xml")[0] + ".xml"))
            with open(os.path.join(cache, name), "wb") as fp:
                fp.write(src[:size])
        if case["timestamp"] is not None:
            with open(os.path.join(cache, "last_update.txt"), "w") as fp:
                fp.write(str(time.time() - 5) if case["timestamp"] == "recent" else case["timestamp"])
        if case["lock"]:
            open(os.path.join(cache, "cache_lock.lock"), "a").close()
        if case["subdir"]:
            os.makedirs(os.path.join(cache, "prerelease"), exist_ok=True)
        missing = [v for v in case["load"] if hedenv.xml_path(v).split("/")[-1] not in case["present"]]
        out.nontrivial = bool(missing) and bool(case["present"])
        out.classes = tuple(c for c, ok in (("partial-cache", bool(missing) and bool(case["present"])),
                                            ("garbage-timestamp", case["timestamp"] not in (None, "12.5")),
                                            ("stray-temp-files", bool(case["stray"])), ("stale-lock", case["lock"]))
                            if ok)
        for v in case["load"]:
            res = load_and_compare(cache, v)
            if res[0] != "ok":
                why = "timestamp" if "float" in res[3] or res[1] in ("ValueError", "OverflowError") else \
                    ("not-found" if "ound" in res[2] + res[3] or res[1] == "URLError" else res[1])
                out.bad(f"load-fails-on-leftover-cache:{why}", f"version {v}: {res}; state {case}")
            elif res[1] is not True:
                out.bad("load-returns-different-content", f"version {v}; state {case}")
        # a merged specification (two libraries under one prefix) over the same leftover directory: every part of it is
        # found and merged, as from a complete cache
        if case.get("merged"):
            shutil.rmtree(cache, ignore_errors=True)
            os.makedirs(cache)
            first, second = case["merged"]
            shutil.copy(hedenv.xml_path(first), os.path.join(cache, os.path.basename(hedenv.xml_path(first))))
            shutil.copy(hedenv.xml_path(hedenv.PARTNERED[first]),
                        os.path.join(cache, os.path.basename(hedenv.xml_path(hedenv.PARTNERED[first]))))

            def job():
                import hed.schema as hs
                from hed.schema import load_schema_version
                hs.set_cache_directory(cache)
                spec = [first, second] if case.get("spec_form") != "string" else f"{first},{second}"
                s = load_schema_version(spec)
                return sorted(s.library.split(",")) if s.library else []
            res = fork_run(job)
            want = sorted({first.rsplit("_", 1)[0], second.rsplit("_", 1)[0]})
            out.classes += ("merged-spec-on-partial-cache",)
            if res[0] != "ok":
                out.bad("merged-load-fails-on-partial-cache", f"{case['merged']}: {res}")
            elif res[1] != want:
                out.bad("merged-load-returns-different-content", f"{case['merged']}: libraries {res[1]} expected {want}")
    finally:
        shutil.rmtree(cache, ignore_errors=True)
    return out


# ------------------------------------------------------------------------------------------------------------
@st.composite
def schedule_case(draw):
    nfiles = len(installed_files())
    return {"pause_at": draw(st.integers(0, 7 * nfiles - 1)), "second_populator": draw(st.booleans()),
            "loads": list(draw(st.sets(st.integers(0, nfiles - 1), min_size=1, max_size=2)))}


def oracle_schedule(case):
    out = Outcome()
    cache = fresh_cache()
    files = installed_files()
    try:
        p_r, p_w = os.pipe()
        r_r, r_w = os.pipe()
        pid = populate_child(cache, case["pause_at"], pause_pipe=p_w, resume_pipe=r_r)
        os.close(p_w)
        os.close(r_r)
        state = os.read(p_r, 1)
        inside_copy = case["pause_at"] % 7 in (1, 2, 3, 4)
        out.nontrivial = state == b"p" and inside_copy
        out.classes = ("paused-inside-copy" if inside_copy else "paused-between-steps",)
        if state == b"p":
            torn = torn_files(cache)
            if torn:
                out.bad("torn-file-visible-during-population", f"pause {case['pause_at']}: {torn}")
            if case["second_populator"]:
                pid2 = populate_child(cache, 10 ** 9)
                rc2 = wait(pid2)
                if rc2 not in (0, 5):
                    out.bad("second-populator-failed", f"exit {rc2}")
                elif rc2 == 0:
                    out.bad("lock-holders-overlap", "a second populator completed while the first one holds the lock")
                out.classes += ("second-populator",)
            for i in case["loads"]:
                v = version_of(files[i])
                res = load_and_compare(cache, v)
                if res[0] != "ok":
                    blob = res[2] + res[3]
                    if "arse" in blob:
                        out.bad("concurrent-load-sees-torn-file", f"pause {case['pause_at']}, version {v}: {res}")
                    else:
                        out.classes += ("concurrent-load-gave-up",)
                elif res[1] is not True:
                    out.bad("concurrent-load-returns-different-content", f"pause {case['pause_at']}, version {v}")
            os.write(r_w, b"r")
            os.read(p_r, 1)
        os.close(r_w)
        os.close(p_r)
        rc = wait(pid)
        if rc not in (0,):
            out.bad("populator-failed-after-resume", f"exit {rc}")
        torn = torn_files(cache)
        if torn:
            out.bad("torn-file-under-final-name", f"after schedule {case}: {torn}")
        missing = [f for f in files if not os.path.exists(os.path.join(cache, f))]
        if missing:
            out.bad("finished-population-misses-files", str(missing))
    finally:
        shutil.rmtree(cache, ignore_errors=True)
    return out


# ------------------------------------------------------------------------------------------------------------
@st.composite
def lock_case(draw):
    return {"kind": draw(st.sampled_from(["contend", "contend", "three-way", "threshold", "sequential",
                                          "interval-across-processes"])),
            "first": draw(st.sampled_from(["local", "refresh-too-early", "nothing"])),
            "age": draw(st.sampled_from([1, 30, 299, 301, 5000])), "threshold": draw(st.sampled_from([300, 10]))}


def holder(cache, ident, log, hold, write_time=False, threshold=300, start_pipe=None, release_pipe=None):
    """Forked lock holder: logs 'E<ident>' on entering, 'X<ident>' on leaving, 'C<ident>' on CacheException,
    'O<ident>:<type>' on any other exception."""
    pid = os.fork()
    if pid:
        return pid
    try:
        from hed.schema.hed_cache_lock import CacheLock, CacheException
        fd = os.open(log, os.O_WRONLY | os.O_APPEND | os.O_CREAT)
        try:
            with CacheLock(cache, write_time=write_time, time_threshold=threshold):
                os.write(fd, f"E{ident}\n".encode())
                if start_pipe is not None:
                    os.write(start_pipe, b"e")
                if release_pipe is not None:
                    os.read(release_pipe, 1)          # hold until the harness says so (no timing assumption)
                else:
                    time.sleep(hold)
                os.write(fd, f"X{ident}\n".encode())
        except CacheException:
            os.write(fd, f"C{ident}\n".encode())
            if start_pipe is not None:
                os.write(start_pipe, b"c")
        except BaseException as exc:  # noqa
            os.write(fd, f"O{ident}:{type(exc).__name__}\n".encode())
            if start_pipe is not None:
                os.write(start_pipe, b"o")
        os._exit(0)
    except BaseException:
        os._exit(3)


def scripted(cache, ident, log, steps, go_r, done_w):
    """Forked long-lived user of the cache: for each step waits for a byte on go_r, performs the step through the
    public functions (local population / refresh with nothing to download), logs '<ident><step>=<result>'."""
    pid = os.fork()
    if pid:
        return pid
    try:
        from hed.schema import hed_cache
        fd = os.open(log, os.O_WRONLY | os.O_APPEND | os.O_CREAT)
        for step in steps:
            os.read(go_r, 1)
            try:
                if step == "local":
                    res = hed_cache.cache_local_versions(cache)
                else:
                    res = hed_cache.cache_xml_versions(hed_base_urls=(), hed_library_urls=(), cache_folder=cache)
                os.write(fd, f"{ident}{step}={res}\n".encode())
            except BaseException as exc:  # noqa
                os.write(fd, f"{ident}{step}=raised:{type(exc).__name__}\n".encode())
            os.write(done_w, b"d")
        os._exit(0)
    except BaseException:
        os._exit(3)


def overlaps(lines):
    inside = set()
    for ln in lines:
        if ln.startswith("E"):
            if inside:
                return True
            inside.add(ln[1:])
        elif ln.startswith("X"):
            inside.discard(ln[1:])
    return False


def oracle_lock(case):
    out = Outcome()
    cache = fresh_cache()
    log = os.path.join(cache, "..", os.path.basename(cache) + ".log")
    try:
        kind = case["kind"]
        out.classes = ("lock:" + kind,)
        if kind == "threshold":
            with open(os.path.join(cache, "last_update.txt"), "w") as fp:
                fp.write(str(time.time() - case["age"]))
            wait(holder(cache, "A", log, 0.0, write_time=True, threshold=case["threshold"]))
            lines = open(log).read().split()
            skipped = case["age"] < case["threshold"]
            out.nontrivial = True
            if skipped and lines != ["CA"]:
                out.bad("refresh-inside-interval-not-skipped", f"age {case['age']} threshold {case['threshold']}: {lines}")
            if not skipped and lines != ["EA", "XA"]:
                out.bad("refresh-outside-interval-refused", f"age {case['age']} threshold {case['threshold']}: {lines}")
            if not skipped:
                try:
                    stamp = float(open(os.path.join(cache, "last_update.txt")).read())
                except ValueError:
                    stamp = -1
                if abs(stamp - time.time()) > 30:
                    out.bad("refresh-time-not-recorded", str(stamp))
        elif kind == "interval-across-processes":
            # P uses the cache, ANOTHER process Q refreshes it, then P (still alive) and a new process R try to
            # refresh within the interval: both must be skipped (-1), whoever did the last refresh
            out.nontrivial = True
            first = case.get("first", "local")
            pg = os.pipe()       # each process has its own 'go' pipe; one shared 'done' pipe
            qg = os.pipe()
            rg = os.pipe()
            dr, dw = os.pipe()
            steps = ([] if first == "nothing" else ["local"]) + ["refresh"]
            p_ = scripted(cache, "P", log, steps, pg[0], dw)
            if first != "nothing":
                os.write(pg[1], b"g")
                os.read(dr, 1)
            q_ = scripted(cache, "Q", log, ["refresh"], qg[0], dw)
            os.write(qg[1], b"g")
            os.read(dr, 1)
            wait(q_)
            os.write(pg[1], b"g")                                     # P's refresh attempt
            os.read(dr, 1)
            wait(p_)
            r_ = scripted(cache, "R", log, ["refresh"], rg[0], dw)
            os.write(rg[1], b"g")
            os.read(dr, 1)
            wait(r_)
            for fd_ in (*pg, *qg, *rg, dr, dw):
                os.close(fd_)
            lines = open(log).read().split()
            expect = (["Plocal=None"] if first != "nothing" else []) + ["Qrefresh=0", "Prefresh=-1", "Rrefresh=-1"]
            if lines != expect:
                out.bad("refresh-interval-not-honoured-across-processes", f"{lines} expected {expect}")
        elif kind == "sequential":
            wait(holder(cache, "A", log, 0.0))
            wait(holder(cache, "B", log, 0.0))
            lines = open(log).read().split()
            if lines != ["EA", "XA", "EB", "XB"]:
                out.bad("uncontended-lock-refused", str(lines))
        else:
            sr, sw = os.pipe()
            if kind == "contend":
                rr, rw = os.pipe()
                a = holder(cache, "A", log, 0, start_pipe=sw, release_pipe=rr)
                os.read(sr, 1)                   # A is inside and stays there
                # B names the same directory in another way (trailing separator, doubled separator, '.' segment)
                spelled = [cache, cache + os.sep, cache + os.sep + ".", os.path.dirname(cache) + os.sep + os.sep +
                           os.path.basename(cache)][case.get("age", 0) % 4]
                b = holder(spelled, "B", log, 0.1)
                wait(b)                          # B must have given up (its timeout is 1 s) while A still holds
                os.write(rw, b"r")
                wait(a)
                os.close(rr)
                os.close(rw)
            else:
                a = holder(cache, "A", log, 0.45, start_pipe=sw)
                os.read(sr, 1)                   # A is inside
                b = holder(cache, "B", log, 0.3)  # B waits, retrying
                time.sleep(0.5)                  # A has just left: C arrives while B may still be retrying
                c = holder(cache, "C", log, 1.2)
                for p in (a, b, c):
                    wait(p)
            os.close(sr)
            os.close(sw)
            lines = open(log).read().split()
            out.nontrivial = True
            if overlaps(lines):
                out.bad("lock-holders-overlap", str(lines))
            others = [ln for ln in lines if ln.startswith("O")]
            if others:
                out.bad("blocked-holder-raises-other-exception", str(others))
            if kind == "contend" and "CB" not in lines:
                out.bad("blocked-holder-did-not-give-up", str(lines))
    finally:
        shutil.rmtree(cache, ignore_errors=True)
        if os.path.exists(log):
            os.remove(log)
    return out


def warmup(tier):
    pass


def parts(tier):
    q = tier == "quick"
    return [Part("crash", oracle_crash, enumerate_fn=crash_enum(tier), exhaustive=(not q)),
            Part("leftover", oracle_leftover, strategy=leftover_case(), n=40 if q else 1600),
            Part("schedule", oracle_schedule, strategy=schedule_case(), n=16 if q else 640),
            Part("lock", oracle_lock, strategy=lock_case(), n=32 if q else 480)]
