"""C11 — Units are accepted and converted exactly as the schema defines them.

Enumerates (value-taking tag, unit class, unit, SI prefix, plural/case spelling) from the independent XML model and
crosses it with numeric literals; oracle = reference acceptance function + factors computed from the XML strings.
"""
import itertools
import math

from hypothesis import strategies as st

from vlib.core import Outcome, Part
from vlib import gen_hed, hedenv, xmlschema

PROPERTY = "C11"
LEVEL = "exploration"
SHARDS = {"quick": 8, "thorough": 16}
TECHNIQUE = "exhaustive enumeration of the unit table (tag x unit x prefix x spelling) + Hypothesis numeric " \
            "literals; reference acceptance/conversion model from the XML"
LEVEL_TEXT = ("Every unit of every unit class, with every permitted SI prefix, singular/plural and 4 letter-case "
              "variants (names) or exact spelling (symbols), on value-taking tags of the schema, is validated and "
              "converted; negatives (foreign-class unit, wrong-case symbol, wrong prefix kind, prefix on non-SI unit, "
              "gibberish) must be UNITS_INVALID and convert to None without raising.")
LEVEL_NOTE = ("trusted: vlib/xmlschema.py; the explicit plural table below (checked against the 28 unit names in the "
              "bundled schemas); conversionFactor strings read as decimal or base^exponent")
RULE = ("enumerated part 'table': (schema, node, unit, prefix, form, case) and negatives derived from the same table, "
        "one fixed literal; part 'literals': Hypothesis draws a table row plus a numeric literal (ints, decimals, "
        "exponents, signs, leading '.') and checks value, linearity and the bare-number clause. Non-trivial = spelling "
        "differs from the unit's declared name (plural, case change, prefixed) or is a negative case.")
ASSUMPTIONS = ["relative tolerance 1e-9 for float comparison of converted values",
               "deprecated units are not enumerated as positives; plural of 'hertz' is 'hertz'; no plural is asserted for "
               "'lb', 'uV', 'degree-Celsius', 'degree Celsius'",
               "no bundled tag uses a prefix-type unit class (currencyUnits is not referenced by any tag), so the "
               "'$ before the number' clause has no instance in the enumerated domain"]

PLURAL = {"byte": "bytes", "candela": "candelas", "day": "days", "degree": "degrees", "dollar": "dollars",
          "euro": "euros", "foot": "feet", "gram": "grams", "hertz": "hertz", "hour": "hours", "inch": "inches",
          "meter": "meters", "metre": "metres", "mile": "miles", "minute": "minutes", "month": "months",
          "point": "points", "pound": "pounds", "radian": "radians", "second": "seconds", "tesla": "teslas",
          "volt": "volts", "year": "years"}
ALL = hedenv.BUNDLED
QUICK = ["8.3.0", "score_1.1.0"]
WRAP = {"duration", "delay"}


def factor(text):
    if text is None:
        return None
    base, caret, exp = text.partition("^")
    if caret:
        return float(base) ** float(exp)
    return float(text)


class UnitTable:
    def __init__(self, version):
        self.version = version
        m = self.m = xmlschema.model(hedenv.xml_path(version))
        self.name_mods = {k: d for k, d in m.modifiers.items() if "SIUnitModifier" in d["attrs"]}
        self.sym_mods = {k: d for k, d in m.modifiers.items() if "SIUnitSymbolModifier" in d["attrs"]}
        self.nodes = [n for n in m.nodes if m.node_unit_classes(n) and not m.is_deprecated(n)
                      and "deprecatedFrom" not in n.placeholder.attrs]

    def mod_factor(self, mod):
        if mod is None:
            return 1.0
        d = self.m.modifiers[mod]
        v = d["attrs"].get("conversionFactor")
        return factor(v[0]) if v else 1.0

    def units_for(self, node):
        out = []
        for cls in self.m.node_unit_classes(node):
            for u, d in self.m.units_of_class(cls).items():
                out.append((cls, u, d["attrs"]))
        return out

    def forms(self, u, attrs):
        """Accepted spellings of one unit as (text, prefix, exact) where exact => case-sensitive."""
        si = "SIUnit" in attrs
        if "unitSymbol" in attrs:
            out = [(u, None, True)]
            if si:
                out += [(mod + u, mod, True) for mod in self.sym_mods]
            return out
        out = []
        names = [u] + ([PLURAL[u.lower()]] if u.lower() in PLURAL else [])
        for nm in dict.fromkeys(names):
            out.append((nm, None, False))
            if si:
                out += [(mod + nm, mod, False) for mod in self.name_mods]
        return out

    def accepts(self, node, text):
        """Reference acceptance: returns (unit name, prefix, attrs) or None."""
        for cls, u, attrs in self.units_for(node):
            if "unitPrefix" in attrs:
                continue
            for spelled, mod, exact in self.forms(u, attrs):
                if (exact and text == spelled) or (not exact and text.casefold() == spelled.casefold()):
                    return u, mod, attrs
        return None


_tables = {}


def table(version):
    if version not in _tables:
        _tables[version] = UnitTable(version)
    return _tables[version]


def case_variants(s):
    return list(dict.fromkeys([s, s.lower(), s.upper(), s.title()]))


def positives(tb, node):
    """(unit_text, unit, prefix, attrs, nontrivial) for every accepted spelling in the enumerated domain."""
    for cls, u, attrs in tb.units_for(node):
        if "deprecatedFrom" in attrs or "unitPrefix" in attrs:
            continue
        for spelled, mod, exact in tb.forms(u, attrs):
            for txt in ([spelled] if exact else case_variants(spelled)):
                yield txt, u, mod, attrs, txt != u


def negatives(tb, node):
    m = tb.m
    cands = []
    mine = set(m.node_unit_classes(node))
    for cname, c in m.unit_classes.items():
        for u, d in c["units"].items():
            a = d["attrs"]
            if cname not in mine:
                cands.append(("foreign", u))
            else:
                if "unitSymbol" in a:
                    for w in (u.upper(), u.lower(), u.swapcase()):
                        cands.append(("symbol-wrong-case", w))
                    for mod in list(tb.name_mods)[:4]:
                        cands.append(("name-prefix-on-symbol", mod + u))
                    cands.append(("symbol-pluralised", u + "s"))
                    if "SIUnit" in a:
                        cands.append(("symbol-pluralised", list(tb.sym_mods)[0] + u + "s"))
                    if "SIUnit" not in a:
                        for mod in list(tb.sym_mods)[:4]:
                            cands.append(("prefix-on-non-si", mod + u))
                else:
                    for mod in list(tb.sym_mods)[:4]:
                        cands.append(("symbol-prefix-on-name", mod + u))
                    if "SIUnit" not in a:
                        for mod in list(tb.name_mods)[:4]:
                            cands.append(("prefix-on-non-si", mod + u))
    cands += [("gibberish", "qzxq"), ("gibberish", "units"), ("gibberish", "x")]
    # a unit standing before the number is only legal for prefix-type units ('$')
    for cname in sorted(mine):
        for u, d in m.unit_classes[cname]["units"].items():
            if "unitPrefix" not in d["attrs"] and " " not in u:
                cands.append(("unit-before-number", "BEFORE:" + u))
    seen = set()
    for kind, txt in cands:
        if " " in txt or not txt or txt in seen:
            continue
        seen.add(txt)
        if txt.startswith("BEFORE:") or tb.accepts(node, txt) is None:
            yield kind, txt
    # unit text of two words whose last word is a unit of the class: still not a unit of the class
    own = [u for cname in sorted(mine) for u, d in m.unit_classes[cname]["units"].items()
           if " " not in u and "unitPrefix" not in d["attrs"] and "deprecatedFrom" not in d["attrs"]]
    for u in own[:3]:
        for first in ("qzx", u, "3"):
            yield "extra-word-before-unit", f"{first} {u}"


def tag_text(node, value):
    return f"{node.short}/{value}"


def validate_codes(version, node, value):
    from hed.models import HedString
    sch = hedenv.schema(version)
    text = tag_text(node, value)
    if node.short.casefold() in WRAP and "topLevelTagGroup" in node.attrs:
        text = f"({text}, (Sensory-event))"      # where the schema wants the tag in a top-level group, give it one
    issues = HedString(text, sch).validate(allow_placeholders=False)
    errs = sorted({i["code"] for i in issues if i["severity"] == 1})
    warns = sorted({i["code"] for i in issues if i["severity"] != 1})
    return errs, warns


def convert(version, node, value):
    from hed.models.hed_tag import HedTag
    return HedTag(tag_text(node, value), hedenv.schema(version)).value_as_default_unit()


def close(a, b):
    return math.isclose(a, b, rel_tol=1e-9, abs_tol=0.0) or (a == 0 and b == 0)


def check_positive(out, version, node, literal, unit_text, u, mod, attrs, tb):
    value = f"{literal} {unit_text}"
    errs, warns = validate_codes(version, node, value)
    if errs:
        out.bad(f"accepted-spelling-rejected:{'+'.join(errs)}", f"{version}: {tag_text(node, value)!r} "
                                                                f"(unit {u!r}, prefix {mod!r}) -> {errs}")
        return
    if "UNITS_MISSING" in warns:
        out.bad("accepted-spelling-unit-not-recognised", f"{version}: {tag_text(node, value)!r} -> {warns}")
    from hed.models.hed_tag import HedTag
    tag = HedTag(tag_text(node, value), hedenv.schema(version))
    stripped, unit = tag.get_stripped_unit_value(tag.extension)
    if unit is None or stripped != literal:
        out.bad("stripped-unit-value-disagrees", f"{version}: {tag_text(node, value)!r} -> {(stripped, unit)}")
    try:
        got = tag.value_as_default_unit()
    except Exception as exc:  # noqa
        out.bad(f"conversion-raises:{type(exc).__name__}:accepted-spelling",
                f"{version}: {tag_text(node, value)!r}: {exc!r}")
        return
    cf = attrs.get("conversionFactor")
    if cf:
        exp = float(literal) * factor(cf[0]) * tb.mod_factor(mod)
        if got is None:
            out.bad("conversion-absent-for-accepted-unit", f"{version}: {tag_text(node, value)!r} expected {exp}")
        elif not close(got, exp):
            ratio = got / exp if exp else float("inf")
            out.bad(f"conversion-wrong-value:ratio~{ratio:.3g}", f"{version}: {tag_text(node, value)!r}: got {got} "
                    f"expected {exp} (unit factor {cf[0]!r}, prefix {mod!r} factor "
                    f"{tb.m.modifiers[mod]['attrs'].get('conversionFactor') if mod else None})")


def check_negative(out, version, node, literal, kind, unit_text):
    value = f"{literal} {unit_text}"
    if unit_text.startswith("BEFORE:"):
        value = f"{unit_text[7:]} {literal}"
    errs, warns = validate_codes(version, node, value)
    if "UNITS_INVALID" not in errs:
        out.bad(f"bad-unit-not-reported:{kind}", f"{version}: {tag_text(node, value)!r} -> errors {errs}")
    try:
        got = convert(version, node, value)
    except Exception as exc:  # noqa
        out.bad(f"conversion-raises:{type(exc).__name__}:unrecognised-unit", f"{version}: "
                f"{tag_text(node, value)!r}: {exc!r}")
        return
    if got is not None:
        out.bad("conversion-defined-for-unrecognised-unit", f"{version}: {tag_text(node, value)!r} -> {got}")


def oracle_table(case):
    version, node_long, kind, unit_text = case
    out = Outcome()
    tb = table(version)
    node = tb.m.by_long[node_long.casefold()]
    if kind == "+":
        acc = tb.accepts(node, unit_text)
        u, mod, attrs = acc
        out.nontrivial = unit_text != u
        check_positive(out, version, node, "3", unit_text, u, mod, attrs, tb)
    else:
        out.nontrivial = True
        out.classes = ("neg:" + kind,)
        check_negative(out, version, node, "3", kind, unit_text)
    return out


def nodes_for(tb, tier):
    if tier == "thorough":
        return tb.nodes
    seen = {}
    out = []
    for n in tb.nodes:
        key = tuple(tb.m.node_unit_classes(n))
        seen[key] = seen.get(key, 0) + 1
        if seen[key] <= 1 or n.short.casefold() in WRAP:
            out.append(n)
    return out


def make_enum(versions, tier):
    def enum(shard, nshards):
        def gen():
            for v in versions:
                tb = table(v)
                for node in nodes_for(tb, tier):
                    for txt, u, mod, attrs, nt in positives(tb, node):
                        yield (v, node.long, "+", txt)
                    for kind, txt in negatives(tb, node):
                        yield (v, node.long, kind, txt)
        return itertools.islice(gen(), shard, None, nshards)
    return enum


def literal_strategy(versions):
    @st.composite
    def strat(draw):
        v = draw(st.sampled_from(versions))
        tb = table(v)
        node = tb.nodes[draw(st.integers(0, len(tb.nodes) - 1))]
        pos = list(positives(tb, node))
        mode = draw(st.sampled_from(["pos", "pos", "bare", "neg", "notnumber"]))
        lit = draw(gen_hed.NUM)
        if mode == "notnumber" and pos and tb.m.node_value_classes(node) == ["numericClass"]:
            # not "a number": digits of other scripts, a dangling exponent, two signs, a trailing line feed
            bad = draw(st.sampled_from(["\u0663", "\uff11\uff12", "\u0663.\u0665", "1e", "--2", "1_0", "3\n", "0x10", "1,5"]))
            txt = pos[draw(st.integers(0, len(pos) - 1))][0]
            return {"version": v, "node": node.long, "mode": "notnumber", "unit": txt, "literal": bad}
        if mode == "pos" and pos:
            txt = pos[draw(st.integers(0, len(pos) - 1))][0]
            return {"version": v, "node": node.long, "mode": "pos", "unit": txt, "literal": lit}
        if mode == "neg":
            neg = list(negatives(tb, node))
            kind, txt = neg[draw(st.integers(0, len(neg) - 1))]
            return {"version": v, "node": node.long, "mode": "neg", "unit": txt, "literal": lit, "kind": kind}
        return {"version": v, "node": node.long, "mode": "bare", "unit": "", "literal": lit}
    return strat()


def oracle_literal(case):
    out = Outcome()
    v = case["version"]
    tb = table(v)
    node = tb.m.by_long[case["node"].casefold()]
    lit = case["literal"]
    out.classes = ("mode:" + case["mode"],)
    if case["mode"] == "pos":
        u, mod, attrs = tb.accepts(node, case["unit"])
        out.nontrivial = case["unit"] != u
        check_positive(out, v, node, lit, case["unit"], u, mod, attrs, tb)
        if attrs.get("conversionFactor") and not out.violations:
            a = convert(v, node, f"{lit} {case['unit']}")
            lit2 = repr(float(lit) * 2)
            if "e" not in lit2 and "inf" not in lit2 and "n" not in lit2:
                b = convert(v, node, f"{lit2} {case['unit']}")
                if a is None or b is None or not close(b, 2 * a):
                    out.bad("conversion-not-linear", f"{v}: {node.short}/{lit} {case['unit']} -> {a}; x2 -> {b}")
    elif case["mode"] == "notnumber":
        out.nontrivial = True
        errs, warns = validate_codes(v, node, f"{lit} {case['unit']}")
        if not errs:
            out.bad("not-a-number-accepted:" + ("ascii" if lit.isascii() else "non-ascii-digits"),
                    f"{v}: {tag_text(node, lit + ' ' + case['unit'])!r} -> no error")
    elif case["mode"] == "neg":
        out.nontrivial = True
        check_negative(out, v, node, lit, case["kind"], case["unit"])
    else:
        out.nontrivial = True
        errs, warns = validate_codes(v, node, lit)
        if errs or warns != ["UNITS_MISSING"]:
            out.bad("bare-number-verdict", f"{v}: {tag_text(node, lit)!r} -> errors {errs} warnings {warns}")
        classes = tb.m.node_unit_classes(node)
        dflt = tb.m.unit_classes[classes[0]]["attrs"].get("defaultUnits") if len(classes) == 1 else None
        if dflt:
            d_attrs = tb.m.units_of_class(classes[0]).get(dflt[0], {}).get("attrs", {})
            cf = d_attrs.get("conversionFactor")
            if cf:
                try:
                    got = convert(v, node, lit)
                except Exception as exc:  # noqa
                    out.bad(f"conversion-raises:{type(exc).__name__}:bare-number", f"{v}: {tag_text(node, lit)!r}")
                    return out
                exp = float(lit) * factor(cf[0])
                if got is None or not close(got, exp):
                    out.bad("bare-number-conversion", f"{v}: {tag_text(node, lit)!r}: got {got} expected {exp}")
    return out


def warmup(tier):
    for v in (QUICK if tier == "quick" else ALL):
        hedenv.schema(v)
        table(v)


def parts(tier):
    versions = QUICK if tier == "quick" else ALL
    return [Part("table", oracle_table, enumerate_fn=make_enum(versions, tier), exhaustive=(tier == "thorough")),
            Part("literals", oracle_literal, strategy=literal_strategy(versions), n=2000 if tier == "quick" else 400000)]


def extra_evidence(tier):
    return {"schemas": QUICK if tier == "quick" else ALL,
            "table_scope": "all value-taking nodes with unit classes" if tier == "thorough"
            else "one node per distinct unit-class set, plus Duration and Delay"}
