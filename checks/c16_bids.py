"""C16 — Each dataset file is validated with its inherited, merged sidecar."""
import io
import json
import os
import shutil
import sys
import tempfile
from collections import Counter

from hypothesis import strategies as st

from vlib.core import Outcome, Part
from vlib import hedenv

PROPERTY = "C16"
LEVEL = "exploration"
SHARDS = {"quick": 8, "thorough": 16}
TECHNIQUE = "Hypothesis-generated BIDS directory trees: reference inheritance model for the merged sidecar, " \
            "differential dataset validation vs per-file validation, CLI exit status"
LEVEL_TEXT = ("Directory trees (1-3 subjects x 0-2 sessions x 1-2 tasks x 1-2 runs; same-suffix sidecars at any subset "
              "of root / subject / session / data directory with any entity subsets, at most one applicable per "
              "directory; decoys in excluded directories; a distractor suffix) are written to a scratch directory. "
              "For every events file the sidecar dictionary the dataset applies must equal the reference top-down merge; "
              "BidsDataset.validate must return exactly the issues of validating each sidecar with its own chain and "
              "each events file with its merged sidecar (multiset of code, file, row, column, sidecar column/key), "
              "with warnings on and off; the command-line validator must return non-zero iff that list is non-empty.")
LEVEL_NOTE = "trusted: the reference inheritance function below; Sidecar / TabularInput validation as the per-file side " \
             "of the differential (their own correctness is C07/C08)"
RULE = ("Hypothesis: tree shape, sidecar placement (level x entity subset), per-sidecar column definitions drawn from a "
        "pool in which the same column is defined differently at different levels, event rows. Non-trivial = some "
        "events file has >=2 applicable sidecars defining a common column differently; class 'chain-not-nested' = the "
        "deepest applicable sidecar's own chain is shorter than the data file's.")
ASSUMPTIONS = ["at most one applicable sidecar per directory per events file (BIDS requirement), by construction",
               "schema 8.3.0 named in dataset_description.json"]

ANNOT = ["Red", "Blue", "Green", "Square", "Triangle", "Walk", "Sound", "Building", "Qzx-bad-tag", "Label/#",
         "(Red, Blue)", "Attentive", "Age/#"]
COLS = ["trial_type", "resp", "val"]
EXCLUDED = ["derivatives", "code", "sourcedata", "stimuli", "phenotype"]


def col_def(draw, col):
    if draw(st.integers(0, 4)) == 0:
        # a level that re-describes the column without annotating it: it still replaces the whole entry from above
        return draw(st.sampled_from([{"Description": "described here, not annotated"},
                                     {"Levels": {"go": "a go trial", "stop": "a stop trial"}}]))
    if col == "val":
        return {"HED": draw(st.sampled_from(["Label/#", "Age/#", "Item-count/#", "Qzx-bad/#"]))}
    keys = ["go", "stop"]
    return {"HED": {k: draw(st.sampled_from([a for a in ANNOT if "#" not in a])) for k in keys}}


@st.composite
def tree(draw):
    nsub = draw(st.integers(1, 3))
    with_ses = draw(st.booleans())
    tasks = ["a", "b"][:draw(st.integers(1, 2))]
    runs = draw(st.integers(1, 2))
    files = {}
    events = []
    for s in range(1, nsub + 1):
        sess = [f"ses-{k}" for k in range(1, draw(st.integers(1, 2)) + 1)] if with_ses else [None]
        for ses in sess:
            d = f"sub-0{s}/" + (f"{ses}/" if ses else "") + "eeg"
            for t in tasks:
                for r in range(1, runs + 1):
                    ents = {"sub": f"0{s}"}
                    if ses:
                        ents["ses"] = ses.split("-")[1]
                    ents["task"] = t
                    if runs > 1 or draw(st.booleans()):
                        ents["run"] = str(r)
                    name = "_".join(f"{k}-{v}" for k, v in ents.items()) + "_events.tsv"
                    if f"{d}/{name}" in files:
                        continue
                    rows = ["onset\tduration\ttrial_type\tresp\tval"]
                    for i in range(draw(st.integers(1, 3))):
                        rows.append("\t".join([str(1.0 + i), "0.5", draw(st.sampled_from(["go", "stop", "n/a", "zzz"])),
                                               draw(st.sampled_from(["go", "stop", "n/a"])),
                                               draw(st.sampled_from(["3", "abc", "n/a"]))]))
                    files[f"{d}/{name}"] = "\n".join(rows) + "\n"
                    events.append((f"{d}/{name}", ents))
    # a frequent real layout: one root sidecar per task plus one sidecar per subject directory
    if draw(st.integers(0, 2)) == 0:
        for t in tasks:
            if draw(st.integers(0, 3)) > 0:
                files[f"task-{t}_events.json"] = json.dumps({c: col_def(draw, c) for c in COLS if draw(st.booleans())}
                                                            or {"trial_type": col_def(draw, "trial_type")})
        for s in range(1, nsub + 1):
            if draw(st.booleans()):
                files[f"sub-0{s}/sub-0{s}_events.json"] = json.dumps(
                    {c: col_def(draw, c) for c in COLS if draw(st.booleans())} or {"resp": col_def(draw, "resp")})
    # sidecars: (directory level, entity subset)
    nsc = draw(st.integers(0, 5))
    for _ in range(nsc):
        path, ents = events[draw(st.integers(0, len(events) - 1))]
        parts = path.split("/")[:-1]
        level = draw(st.integers(0, len(parts)))
        d = "/".join(parts[:level])
        # entities allowed at this level: only those fixed by the directory, plus any others of the file
        keys = [k for k in ents if draw(st.booleans())]
        if level >= 1 and "sub" not in keys and draw(st.booleans()):
            keys.insert(0, "sub")
        sub_ents = {k: ents[k] for k in ents if k in keys}
        name = "_".join([f"{k}-{v}" for k, v in sub_ents.items()] + ["events.json"])
        rel = (d + "/" if d else "") + name
        if rel in files:
            continue
        # at most one applicable sidecar per directory per events file
        clash = False
        for other, oents in events:
            if not other.startswith(d + "/") and d:
                continue
            mine = all(oents.get(k) == v for k, v in sub_ents.items())
            if not mine:
                continue
            for ex in files:
                if ex.endswith("_events.json") or ex.endswith("/events.json") or ex == "events.json":
                    exd = "/".join(ex.split("/")[:-1])
                    if exd == d and applies(ex, other):
                        clash = True
        if clash:
            continue
        cols = [c for c in COLS if draw(st.booleans())] or [draw(st.sampled_from(COLS))]
        files[rel] = json.dumps({c: col_def(draw, c) for c in cols})
    # decoys in excluded directories and a distractor suffix
    for ex in EXCLUDED:
        if draw(st.integers(0, 3)) == 0:
            files[f"{ex}/sub-01_task-a_events.tsv"] = "onset\tduration\tHED\n1.0\t0.5\tQzx-decoy-bad\n"
            files[f"{ex}/task-a_events.json"] = json.dumps({"trial_type": {"HED": {"go": "Qzx-decoy-bad"}}})
    if draw(st.booleans()):
        files["sub-01/eeg/sub-01_task-a_beh.tsv"] = "onset\tHED\n1.0\tQzx-beh-bad\n"
        files["task-a_beh.json"] = json.dumps({"trial_type": {"HED": {"go": "Qzx-beh-bad"}}})
    files["dataset_description.json"] = json.dumps({"Name": "gen", "BIDSVersion": "1.8.0", "HEDVersion": "8.3.0"})
    return {"files": files}


def entities(name):
    base = os.path.basename(name).rsplit(".", 1)[0]
    pieces = base.split("_")[:-1]
    return dict(p.split("-", 1) for p in pieces)


def applies(sidecar_rel, file_rel):
    """Reference rule: the sidecar lies in a directory on the path from the root to the file and every entity in its
    name occurs with the same value in the file's name."""
    sd = "/".join(sidecar_rel.split("/")[:-1])
    fd = "/".join(file_rel.split("/")[:-1])
    if sd and not (fd == sd or fd.startswith(sd + "/")):
        return False
    se, fe = entities(sidecar_rel), entities(file_rel)
    return all(fe.get(k) == v for k, v in se.items())


def chain_for(files, file_rel):
    scs = [f for f in files if f.endswith("events.json") and not any(f.startswith(ex + "/") for ex in EXCLUDED)
           and f != file_rel]
    out = [s for s in scs if applies(s, file_rel)]
    return sorted(out, key=lambda s: (s.count("/"), s))


def merged(files, chain):
    d = {}
    for s in chain:
        d.update(json.loads(files[s]))
    return d


def write_tree(files):
    root = tempfile.mkdtemp(prefix="c16_", dir=os.environ.get("HOME"))
    for rel, content in files.items():
        p = os.path.join(root, rel)
        os.makedirs(os.path.dirname(p), exist_ok=True)
        with open(p, "w", encoding="utf-8") as fp:
            fp.write(content)
    return root


def key_of(i):
    return (i["code"], os.path.basename(str(i.get("ec_filename"))), i.get("ec_row"), i.get("ec_column"),
            i.get("ec_sidecarColumnName"), i.get("ec_sidecarKeyName"), i["severity"])


def oracle(case):
    from hed.tools.bids.bids_dataset import BidsDataset
    from hed.models.sidecar import Sidecar
    from hed.models.tabular_input import TabularInput
    from hed.errors.error_reporter import ErrorHandler
    out = Outcome()
    files = case["files"]
    root = write_tree(files)
    try:
        sch = hedenv.schema("8.3.0")
        try:
            ds = BidsDataset(root)
            group = ds.get_tabular_group("events")
        except Exception as exc:  # noqa
            from vlib.core import crash_signature
            return out.bad(crash_signature(exc, "dataset-raises") or f"dataset-raises:{type(exc).__name__}",
                           f"{exc!r}; files {sorted(files)}")
        ev_files = sorted(f for f in files if f.endswith("_events.tsv")
                          and not any(f.startswith(ex + "/") for ex in EXCLUDED))
        sc_files = sorted(f for f in files if f.endswith("events.json")
                          and not any(f.startswith(ex + "/") for ex in EXCLUDED))
        got_files = sorted(os.path.relpath(p, os.path.realpath(root)) for p in group.datafile_dict)
        if got_files != ev_files:
            out.bad("events-file-set-differs", f"{got_files} vs {ev_files}")
        got_scs = sorted(os.path.relpath(p, os.path.realpath(root)) for p in group.sidecar_dict)
        if got_scs != sc_files:
            out.bad("sidecar-file-set-differs", f"{got_scs} vs {sc_files}")
        nontrivial = False
        not_nested = False
        for f in ev_files:
            chain = chain_for(files, f)
            exp = merged(files, chain)
            obj = group.datafile_dict.get(os.path.realpath(os.path.join(root, f)))
            if obj is None:
                continue
            got = obj.sidecar.contents.loaded_dict if obj.sidecar is not None and obj.sidecar.contents else {}
            defs = [json.loads(files[s]) for s in chain]
            if len(chain) >= 2 and any(k in a and k in b and a[k] != b[k] for i, a in enumerate(defs)
                                       for b in defs[i + 1:] for k in a):
                nontrivial = True
            if chain and chain_for(files, chain[-1]) + [chain[-1]] != chain and chain_for(files, chain[-1]) != chain[:-1]:
                not_nested = True
            if got != exp:
                why = "column-dropped" if set(got) != set(exp) else "wrong-override"
                out.bad(f"merged-sidecar-differs-from-reference:{why}", f"{f}: chain {chain}: applied {got} expected "
                                                                        f"{exp}; files {sorted(files)}")
        out.nontrivial = nontrivial
        out.classes = tuple(c for c, ok in (("chain-not-nested", not_nested), ("sidecars>=3", len(sc_files) >= 3),
                                            ("excluded-decoys", any(f.startswith(tuple(EXCLUDED)) for f in files)))
                            if ok)
        for w in (True, False):
            try:
                got_issues = ds.validate(check_for_warnings=w)
            except Exception as exc:  # noqa
                from vlib.core import crash_signature
                out.bad(crash_signature(exc, "dataset-validate-raises") or "dataset-validate-raises", repr(exc)[:300])
                continue
            exp_issues = []
            for s in sc_files:
                chain = chain_for(files, s) + [s]
                chain = sorted(set(chain), key=lambda x: (x.count("/"), x))
                sc = Sidecar([os.path.join(root, c) for c in chain], name=os.path.basename(s))
                exp_issues += sc.validate(sch, name=os.path.basename(s), error_handler=ErrorHandler(w))
            for f in ev_files:
                chain = chain_for(files, f)
                sc = Sidecar([os.path.join(root, c) for c in chain]) if chain else None
                tab = TabularInput(os.path.join(root, f), sidecar=sc, name=f)
                exp_issues += tab.validate(sch, name=os.path.basename(f), error_handler=ErrorHandler(w))
            a, b = Counter(key_of(i) for i in got_issues), Counter(key_of(i) for i in exp_issues)
            if a != b:
                diff = sorted(set((a - b) | (b - a)), key=repr)[:4]
                out.bad(f"dataset-issues-differ-from-per-file-validation:warnings-{w}",
                        f"{diff}; files {sorted(files)}")
            if True:
                # command-line validator, with and without its warnings flag: non-zero iff the list is non-empty
                from hed.scripts import hed_validator
                argv, stdout = sys.argv, sys.stdout
                try:
                    sys.argv = ["hed_validator", root] + (["--check-for-warnings"] if w else [])
                    sys.stdout = io.StringIO()
                    rc = hed_validator.main()
                except SystemExit as exc:
                    rc = exc.code
                except Exception as exc:  # noqa
                    rc = f"raised {exc!r}"
                finally:
                    sys.argv, sys.stdout = argv, stdout
                if rc != int(bool(exp_issues)):
                    out.bad(f"cli-exit-status-differs:warnings-{w}", f"main() -> {rc!r}, reference issues "
                                                                    f"{len(exp_issues)}; files {sorted(files)}")
    finally:
        shutil.rmtree(root, ignore_errors=True)
    return out


def describe(case):
    return {"files": {k: v for k, v in case["files"].items()}}


def warmup(tier):
    hedenv.schema("8.3.0")


def parts(tier):
    return [Part("trees", oracle, strategy=tree(), n=220 if tier == "quick" else 6400, describe=describe)]
