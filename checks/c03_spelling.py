"""C03 — Every spelling of a schema tag resolves to the same node and canonical forms.

Oracle: expected long/short/base forms come from the independent XML model (vlib.xmlschema); the code under
test is HedTag / HedString / df_util.convert_to_form over the loaded schema.
"""
import itertools

from hypothesis import strategies as st

from vlib.core import Outcome, Part
from vlib import hedenv, xmlschema

PROPERTY = "C03"
LEVEL = "exploration"
SHARDS = {"quick": 8, "thorough": 16}
TECHNIQUE = "exhaustive enumeration of the bundled vocabulary x spellings + Hypothesis case masks/suffixes, " \
            "oracle = independent XML model"
LEVEL_TEXT = ("Every non-placeholder node of the listed schemas x every suffix path x 4 deterministic case variants "
              "x (no suffix | value | extension) is resolved and compared with forms derived from an independent "
              "ElementTree reading of the XML (exhaustive for that finite domain); Hypothesis adds random case "
              "masks, value/extension texts, namespace prefixes, HedString and DataFrame conversion paths.")
LEVEL_NOTE = "trusted: vlib/xmlschema.py (ElementTree walk), the bundled XML files as ground truth for the vocabulary"
RULE = ("enumerated part: (schema config, node, suffix-path spelling, case variant in {as-is, lower, upper, "
        "alternating}, suffix in {none, value or extension}); random part: Hypothesis draws (config, node index, "
        "suffix-path index, per-character case mask, suffix text). Non-trivial = the spelling differs from the "
        "canonical short form (partial/full path, case change, namespace prefix, or suffix present).")
ASSUMPTIONS = ["extension terms are fresh (not schema terms); values contain no delimiter characters",
               "generated schemas = bundled XML plus generated chains of new nodes (below value-taking nodes, below "
               "ordinary nodes, with their own '#' child, with names ending like their parent)"]

# config name -> (xml version for the model, loader kind, namespace)
CONFIGS = {
    "8.0.0": ("8.0.0", "version", ""), "8.1.0": ("8.1.0", "version", ""), "8.2.0": ("8.2.0", "version", ""),
    "8.3.0": ("8.3.0", "version", ""),
    "score_1.0.0": ("score_1.0.0", "version", ""), "score_1.1.0": ("score_1.1.0", "version", ""),
    "score_2.0.0": ("score_2.0.0", "version", ""), "testlib_1.0.2": ("testlib_1.0.2", "version", ""),
    "testlib_2.0.0": ("testlib_2.0.0", "version", ""), "testlib_2.1.0": ("testlib_2.1.0", "version", ""),
    "testlib_3.0.0": ("testlib_3.0.0", "version", ""),
    "xx:testlib_3.0.0": ("testlib_3.0.0", "prefixed", "xx:"),
    "sc:score_2.0.0": ("score_2.0.0", "prefixed", "sc:"),
    "lb:testlib_2.0.0,score_1.1.0/testlib": ("testlib_2.0.0", "spec:lb:testlib_2.0.0,score_1.1.0", "lb:"),
    "lb:testlib_2.0.0,score_1.1.0/score": ("score_1.1.0", "spec:lb:testlib_2.0.0,score_1.1.0", "lb:"),
    "score_1.1.0,testlib_2.0.0/testlib": ("testlib_2.0.0", "spec:score_1.1.0,testlib_2.0.0", ""),
    "group(8.3.0,sc:score_2.0.0)/sc": ("score_2.0.0", "group", "sc:"),
    "group(8.3.0,sc:score_2.0.0)/std": ("8.3.0", "group", ""),
}
QUICK_CONFIGS = ["8.3.0", "xx:testlib_3.0.0", "group(8.3.0,sc:score_2.0.0)/sc", "lb:testlib_2.0.0,score_1.1.0/testlib"]

_loaded = {}


def get_config(name):
    if name not in _loaded:
        ver, kind, ns = CONFIGS[name]
        m = xmlschema.model(hedenv.xml_path(ver))
        if kind == "version":
            sch = hedenv.schema(ver)
        elif kind == "prefixed":
            sch = hedenv.schema(ns + ver)
        elif kind.startswith("spec:"):
            sch = hedenv.schema(kind[5:])
        else:
            sch = hedenv.schema(("8.3.0", "sc:score_2.0.0"))
        _loaded[name] = (m, sch, ns)
    return _loaded[name]


def warmup(tier):
    for c in (QUICK_CONFIGS if tier == "quick" else CONFIGS):
        get_config(c)


def alt_case(s):
    return "".join(ch.upper() if i % 2 else ch.lower() for i, ch in enumerate(s))


CASEFNS = {"asis": lambda s: s, "lower": str.lower, "upper": str.upper, "alt": alt_case}


def suffix_for(node, m):
    """A deterministic suffix the node can syntactically carry: value for value-taking nodes, else extension."""
    if node.placeholder is not None:
        return "/Some-Value 12"
    return "/Fresh-eXt9"


def check_spelling(cfg, node_long, spelling, suffix, out, heavy=False):
    from hed.models.hed_tag import HedTag
    from hed.models.hed_string import HedString
    m, sch, ns = get_config(cfg)
    node = m.by_long[node_long.casefold()]
    text = ns + spelling + suffix
    tag = HedTag(text, sch)
    exp_long = ns + node.long + suffix
    exp_short = ns + node.short + suffix
    if not tag.tag_exists_in_schema():
        out.bad("not-resolved", f"{cfg}: {text!r}")
        return
    got = (tag.long_tag, tag.short_tag, tag.base_tag, tag.short_base_tag, tag.extension)
    exp = (exp_long, exp_short, node.long, node.short, suffix[1:])
    if got != exp:
        names = ("long_tag", "short_tag", "base_tag", "short_base_tag", "extension")
        bad = [n for n, g, e in zip(names, got, exp) if g != e]
        out.bad("forms-differ:" + ",".join(bad), f"{cfg}: {text!r}: got {got} expected {exp}")
        return
    if suffix and suffix.swapcase() != suffix:
        sw = suffix.swapcase()
        tag_sw = HedTag(ns + spelling + sw, sch)
        got_sw = (tag_sw.long_tag, tag_sw.short_tag, tag_sw.extension)
        exp_sw = (ns + node.long + sw, ns + node.short + sw, sw[1:])
        if got_sw != exp_sw:
            out.bad("suffix-case-not-verbatim-on-second-lookup", f"{cfg}: after {text!r}, {ns + spelling + sw!r} gives "
                                                                 f"{got_sw} expected {exp_sw}")
    # the schema's own accessor finds the same entry, the name given with or without the namespace prefix
    if not suffix and hasattr(sch, "get_tag_entry"):
        for name in (ns + spelling, spelling):
            try:
                ent = sch.get_tag_entry(name, schema_namespace=ns)
            except Exception as exc:  # noqa
                out.bad("schema-accessor-raises", f"{cfg}: get_tag_entry({name!r}, schema_namespace={ns!r}): {exc!r}")
                break
            if ent is None or ent.name != node.long:
                out.bad("schema-accessor-differs", f"{cfg}: get_tag_entry({name!r}, schema_namespace={ns!r}) -> "
                                                   f"{ent.name if ent else None!r} expected {node.long!r}")
                break
    # a caseless-equal spelling whose length differs (sharp s for "ss"): same node, suffix still verbatim
    low = spelling.casefold()
    if suffix and "ss" in low:
        k = low.rindex("ss")
        alt = spelling[:k] + "\u00df" + spelling[k + 2:]
        if alt.casefold() == low:
            tag_alt = HedTag(ns + alt + suffix, sch)
            got_alt = (tag_alt.long_tag, tag_alt.short_tag, tag_alt.extension)
            if got_alt != (exp_long, exp_short, suffix[1:]):
                out.bad("suffix-not-verbatim-for-caseless-equal-spelling", f"{cfg}: {ns + alt + suffix!r} gives {got_alt} "
                                                                           f"expected {(exp_long, exp_short, suffix[1:])}")
    # conversion laws: long(short(t)) = long(t); short(long(t)) = short(t); idempotence; same node
    t_long = HedTag(tag.long_tag, sch)
    t_short = HedTag(tag.short_tag, sch)
    if t_short.long_tag != tag.long_tag or t_long.short_tag != tag.short_tag:
        out.bad("conversion-not-inverse", f"{cfg}: {text!r}: long(short)={t_short.long_tag!r} "
                                          f"short(long)={t_long.short_tag!r}")
    if t_long.long_tag != tag.long_tag or t_short.short_tag != tag.short_tag:
        out.bad("conversion-not-idempotent", f"{cfg}: {text!r}")
    e0 = getattr(tag, "_schema_entry", None)
    if not (e0 is getattr(t_long, "_schema_entry", None) is getattr(t_short, "_schema_entry", None)):
        out.bad("different-node-identified", f"{cfg}: {text!r}")
    if e0 is not None:
        want_name = node.long + ("/#" if (suffix and node.placeholder is not None) else "")
        if e0.name != want_name:
            out.bad("entry-name-differs", f"{cfg}: {text!r}: entry {e0.name!r} expected {want_name!r}")
    if heavy:
        hs = HedString(f"({text}, {text})", sch)
        if hs.get_as_long() != f"({exp_long},{exp_long})" or hs.get_as_short() != f"({exp_short},{exp_short})":
            out.bad("hedstring-forms-differ", f"{cfg}: {text!r}: {hs.get_as_long()!r} / {hs.get_as_short()!r}")
        import pandas as pd
        from hed.models import df_util
        ser = pd.Series([text, f"({text})"])
        df_util.convert_to_form(ser, sch, "long_tag")
        if list(ser) != [exp_long, f"({exp_long})"]:
            out.bad("series-long-differs", f"{cfg}: {text!r}: {list(ser)}")
        df = pd.DataFrame({"a": [text], "b": [exp_long]})
        df_util.convert_to_form(df, sch, "short_tag")
        if list(df["a"]) != [exp_short] or list(df["b"]) != [exp_short]:
            out.bad("dataframe-short-differs", f"{cfg}: {text!r}: {df.values.tolist()}")
        # a frame / series whose row labels are not 0..n-1 in order (sorted, filtered, re-indexed tables),
        # with a repeated cell text and an n/a cell
        other = ns + ("Event" if node.short != "Event" else "Item")
        cells = [text, "n/a", other, text, f"({text}, {other})"]
        idx = [7, 3, 5, 1, 0]
        df2 = pd.DataFrame({"a": cells}, index=idx)
        df_util.convert_to_form(df2, sch, "long_tag")
        got2 = list(df2["a"])
        ser2 = pd.Series(cells, index=idx)
        df_util.convert_to_form(ser2, sch, "long_tag")
        for name, got_ in (("dataframe", got2), ("series", list(ser2))):
            if got_[0] != exp_long or got_[3] != exp_long or got_[1] != "n/a" or \
                    not (isinstance(got_[4], str) and got_[4].startswith(f"({exp_long},")) or \
                    got_[2] != other:
                out.bad(f"{name}-with-own-row-labels-differs", f"{cfg}: {text!r}: {got_}")
        if list(df2.index) != idx or list(ser2.index) != idx:
            out.bad("row-labels-changed-by-conversion", f"{cfg}: {list(df2.index)}")


def oracle_enum(case):
    cfg, node_long, spelling, suffix = case
    out = Outcome()
    m, sch, ns = get_config(cfg)
    node = m.by_long[node_long.casefold()]
    out.nontrivial = (spelling != node.short) or bool(suffix) or bool(ns)
    check_spelling(cfg, node_long, spelling, suffix, out)
    return out


def make_enum(configs):
    def enum(shard, nshards):
        def gen():
            for cfg in configs:
                m, sch, ns = get_config(cfg)
                for node in m.nodes:
                    sfx = suffix_for(node, m)
                    for sp in m.suffix_paths(node):
                        seen = set()
                        for fn in CASEFNS.values():
                            s = fn(sp)
                            if s in seen:
                                continue
                            seen.add(s)
                            yield (cfg, node.long, s, "")
                            yield (cfg, node.long, s, sfx)
                            if node.placeholder is not None and fn is CASEFNS[next(iter(CASEFNS))]:
                                # values in which a colon comes before a slash (URLs, ratios inside a path)
                                yield (cfg, node.long, s, "/http://example.org/x.png")
                                yield (cfg, node.long, s, "/r 1:2/t")
        return itertools.islice(gen(), shard, None, nshards)
    return enum


VALUE_CHARS = "abcXYZ019 -_.:$%^&*+=<>?!'\"éßİ日"     # '#' only as the whole value (the placeholder itself)
value_text = st.text(alphabet=VALUE_CHARS, min_size=1, max_size=12).map(lambda s: s.strip(" ")).filter(bool)
ext_term = st.text(alphabet="abcdefXYZ019-_", min_size=2, max_size=10).map(lambda s: "Q" + s + "q7")


def random_strategy(configs):
    @st.composite
    def strat(draw):
        cfg = draw(st.sampled_from(configs))
        m, sch, ns = get_config(cfg)
        idx = draw(st.integers(0, len(m.nodes) - 1))
        node = m.nodes[idx]
        paths = m.suffix_paths(node)
        sp = paths[draw(st.integers(0, len(paths) - 1))]
        mask = draw(st.lists(st.booleans(), min_size=len(sp), max_size=len(sp)))
        sp = "".join(ch.swapcase() if b else ch for ch, b in zip(sp, mask))
        kind = draw(st.sampled_from(["none", "suffix", "suffix", "hash"]))
        suffix = ""
        if kind == "hash" and node.placeholder is not None:
            suffix = "/#"
        elif kind != "none":
            if node.placeholder is not None:
                suffix = "/" + draw(value_text)
                if draw(st.booleans()):
                    suffix += "/" + draw(value_text)
            else:
                suffix = "/" + draw(ext_term)
                if draw(st.integers(0, 3)) == 0:
                    suffix += "/" + draw(ext_term)
        return {"cfg": cfg, "node": node.long, "spelling": sp, "suffix": suffix}
    return strat()


def oracle_random(case):
    out = Outcome()
    m, sch, ns = get_config(case["cfg"])
    node = m.by_long[case["node"].casefold()]
    suffix = case["suffix"]
    # sound-first: an extension term must not be an existing schema term (that is an error by the rules)
    if node.placeholder is None and suffix:
        if any(t.casefold() in m.by_short for t in suffix[1:].split("/")):
            return out
    out.nontrivial = (case["spelling"] != node.short) or bool(suffix) or bool(ns)
    out.classes = tuple(c for c, ok in (("suffix", bool(suffix)), ("partial-path", "/" in case["spelling"]),
                                        ("namespace", bool(ns)), ("value-node", node.placeholder is not None),
                                        ("case-changed", case["spelling"] not in m.suffix_paths(node))) if ok)
    check_spelling(case["cfg"], case["node"], case["spelling"], suffix, out, heavy=True)
    return out


# ---------------------------------------------------------------------------------------------------------------
# generated schemas: shapes the bundled files lack (ordinary children below a value-taking node, deep chains,
# a node whose name equals the tail of a sibling's name, extension-allowed and not)
@st.composite
def generated_case(draw):
    return {"base": draw(st.sampled_from(["8.3.0", "8.1.0"])),
            "adds": draw(st.lists(st.tuples(st.integers(0, 5000), st.integers(0, 5), st.integers(1, 3)),
                                  min_size=1, max_size=4)),
            "case_seed": draw(st.integers(0, 10 ** 6))}


def build_generated(case):
    import os
    import tempfile
    from vlib import gen_schema
    root = gen_schema.clone(case["base"])
    nodes = gen_schema.node_elements(root)
    value_parents = [(e, long) for e, long, _ in nodes
                     if any(c.findtext("name") == "#" for c in e.findall("node"))]
    plain = [(e, long) for e, long, _ in nodes if not long.endswith("/#")]
    new_longs = []
    for i, (pos, kind, depth) in enumerate(case["adds"]):
        if kind <= 2:       # ordinary child (chain) below a node that also has a '#' child
            parent, plong = value_parents[pos % len(value_parents)]
        else:
            parent, plong = plain[pos % len(plain)]
        for d in range(depth):
            name = f"Zq{i}x{d}" if kind != 5 else f"Zq{i}-{plong.split('/')[-1]}"[:40] + str(d)
            child = gen_schema.new_node(name, "generated")
            if kind == 4 and d == depth - 1:
                ph = gen_schema.new_node("#")
                gen_schema.add_attr(ph, "takesValue")
                child.append(ph)
            parent.append(child)
            plong = plong + "/" + name
            parent = child
            new_longs.append(plong)
    d = tempfile.mkdtemp(prefix="c03gen_", dir=os.environ.get("HOME"))
    path = os.path.join(d, "HED_gen.xml")
    with open(path, "w", encoding="utf-8") as fp:
        fp.write(gen_schema.to_string(root))
    return path, new_longs


def oracle_generated(case):
    import random
    import shutil
    import os
    from hed.schema import load_schema
    out = Outcome(nontrivial=True)
    path, new_longs = build_generated(case)
    try:
        m = xmlschema.XModel(path)
        sch = load_schema(path)
        cfg = "generated:" + path
        _loaded[cfg] = (m, sch, "")
        rnd = random.Random(case["case_seed"])
        for long in new_longs:
            node = m.by_long[long.casefold()]
            targets = [node] + ([node.parent] if node.parent is not None else [])
            for n in targets:
                sfx = suffix_for(n, m)
                for sp in m.suffix_paths(n):
                    for s in {sp, sp.lower(), "".join(c.upper() if rnd.random() < 0.5 else c for c in sp)}:
                        check_spelling(cfg, n.long, s, "", out)
                        check_spelling(cfg, n.long, s, sfx, out)
                        if out.violations:
                            out.violations = [(sig, f"generated schema from {case}: " + det) for sig, det in out.violations]
                            return out
        has_mixed = any(n.placeholder is not None and n.children for n in m.nodes)
        out.classes = (("value-node-with-ordinary-children",) if has_mixed else ()) + ("base:" + case["base"],)
    finally:
        _loaded.pop("generated:" + path, None)
        shutil.rmtree(os.path.dirname(path), ignore_errors=True)
    return out


def parts(tier):
    configs = QUICK_CONFIGS if tier == "quick" else list(CONFIGS)
    n = 3000 if tier == "quick" else 200000
    return [Part("vocabulary", oracle_enum, enumerate_fn=make_enum(configs), exhaustive=True),
            Part("random", oracle_random, strategy=random_strategy(configs), n=n),
            Part("generated-schemas", oracle_generated, strategy=generated_case(), n=24 if tier == "quick" else 2400)]


def extra_evidence(tier):
    configs = QUICK_CONFIGS if tier == "quick" else list(CONFIGS)
    return {"schema_configurations": configs}
