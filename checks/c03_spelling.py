"""C03 — Every spelling of a schema tag resolves to the same node and canonical forms.

Oracle: expected long/short/base forms come from the independent XML model (vlib.xmlschema); the code under
test is HedTag / HedString / df_util.convert_to_form over the loaded schema.
"""
import itertools

from hypothesis import strategies as st

from vlib.core import Outcome, Part
from vlib import hedenv, xmlschema

PROPERTY = "C03"
LEVEL = "exploration"
SHARDS = {"quick": 8, "thorough": 16}
TECHNIQUE = "exhaustive enumeration of the bundled vocabulary x spellings + Hypothesis case masks/suffixes, " \
            "oracle = independent XML model"
LEVEL_TEXT = ("Every non-placeholder node of the listed schemas x every suffix path x 4 deterministic case variants "
              "x (no suffix | value | extension) is resolved and compared with forms derived from an independent "
              "ElementTree reading of the XML (exhaustive for that finite domain); Hypothesis adds random case "
              "masks, value/extension texts, namespace prefixes, HedString and DataFrame conversion paths.")
LEVEL_NOTE = "trusted: vlib/xmlschema.py (ElementTree walk), the bundled XML files as ground truth for the vocabulary"
RULE = ("enumerated part: (schema config, node, suffix-path spelling, case variant in {as-is, lower, upper, "
        "alternating}, suffix in {none, value or extension}); random part: Hypothesis draws (config, node index, "
        "suffix-path index, per-character case mask, suffix text). Non-trivial = the spelling differs from the "
        "canonical short form (partial/full path, case change, namespace prefix, or suffix present).")
ASSUMPTIONS = ["extension terms are fresh (not schema terms); values contain no delimiter characters",
               "generated schemas (edited XML) are exercised by C05's generator, not here"]

# config name -> (xml version for the model, loader kind, namespace)
CONFIGS = {
    "8.0.0": ("8.0.0", "version", ""), "8.1.0": ("8.1.0", "version", ""), "8.2.0": ("8.2.0", "version", ""),
    "8.3.0": ("8.3.0", "version", ""),
    "score_1.0.0": ("score_1.0.0", "version", ""), "score_1.1.0": ("score_1.1.0", "version", ""),
    "score_2.0.0": ("score_2.0.0", "version", ""), "testlib_1.0.2": ("testlib_1.0.2", "version", ""),
    "testlib_2.0.0": ("testlib_2.0.0", "version", ""), "testlib_2.1.0": ("testlib_2.1.0", "version", ""),
    "testlib_3.0.0": ("testlib_3.0.0", "version", ""),
    "xx:testlib_3.0.0": ("testlib_3.0.0", "prefixed", "xx:"),
    "sc:score_2.0.0": ("score_2.0.0", "prefixed", "sc:"),
    "group(8.3.0,sc:score_2.0.0)/sc": ("score_2.0.0", "group", "sc:"),
    "group(8.3.0,sc:score_2.0.0)/std": ("8.3.0", "group", ""),
}
QUICK_CONFIGS = ["8.3.0", "xx:testlib_3.0.0", "group(8.3.0,sc:score_2.0.0)/sc"]

_loaded = {}


def get_config(name):
    if name not in _loaded:
        ver, kind, ns = CONFIGS[name]
        m = xmlschema.model(hedenv.xml_path(ver))
        if kind == "version":
            sch = hedenv.schema(ver)
        elif kind == "prefixed":
            sch = hedenv.schema(ns + ver)
        else:
            sch = hedenv.schema(("8.3.0", "sc:score_2.0.0"))
        _loaded[name] = (m, sch, ns)
    return _loaded[name]


def warmup(tier):
    for c in (QUICK_CONFIGS if tier == "quick" else CONFIGS):
        get_config(c)


def alt_case(s):
    return "".join(ch.upper() if i % 2 else ch.lower() for i, ch in enumerate(s))


CASEFNS = {"asis": lambda s: s, "lower": str.lower, "upper": str.upper, "alt": alt_case}


def suffix_for(node, m):
    """A deterministic suffix the node can syntactically carry: value for value-taking nodes, else extension."""
    if node.placeholder is not None:
        return "/Some-Value 12"
    return "/Fresh-eXt9"


def check_spelling(cfg, node_long, spelling, suffix, out, heavy=False):
    from hed.models.hed_tag import HedTag
    from hed.models.hed_string import HedString
    m, sch, ns = get_config(cfg)
    node = m.by_long[node_long.casefold()]
    text = ns + spelling + suffix
    tag = HedTag(text, sch)
    exp_long = ns + node.long + suffix
    exp_short = ns + node.short + suffix
    if not tag.tag_exists_in_schema():
        out.bad("not-resolved", f"{cfg}: {text!r}")
        return
    got = (tag.long_tag, tag.short_tag, tag.base_tag, tag.short_base_tag, tag.extension)
    exp = (exp_long, exp_short, node.long, node.short, suffix[1:])
    if got != exp:
        names = ("long_tag", "short_tag", "base_tag", "short_base_tag", "extension")
        bad = [n for n, g, e in zip(names, got, exp) if g != e]
        out.bad("forms-differ:" + ",".join(bad), f"{cfg}: {text!r}: got {got} expected {exp}")
        return
    # conversion laws: long(short(t)) = long(t); short(long(t)) = short(t); idempotence; same node
    t_long = HedTag(tag.long_tag, sch)
    t_short = HedTag(tag.short_tag, sch)
    if t_short.long_tag != tag.long_tag or t_long.short_tag != tag.short_tag:
        out.bad("conversion-not-inverse", f"{cfg}: {text!r}: long(short)={t_short.long_tag!r} "
                                          f"short(long)={t_long.short_tag!r}")
    if t_long.long_tag != tag.long_tag or t_short.short_tag != tag.short_tag:
        out.bad("conversion-not-idempotent", f"{cfg}: {text!r}")
    e0 = getattr(tag, "_schema_entry", None)
    if not (e0 is getattr(t_long, "_schema_entry", None) is getattr(t_short, "_schema_entry", None)):
        out.bad("different-node-identified", f"{cfg}: {text!r}")
    if e0 is not None:
        want_name = node.long + ("/#" if (suffix and node.placeholder is not None) else "")
        if e0.name != want_name:
            out.bad("entry-name-differs", f"{cfg}: {text!r}: entry {e0.name!r} expected {want_name!r}")
    if heavy:
        hs = HedString(f"({text}, {text})", sch)
        if hs.get_as_long() != f"({exp_long},{exp_long})" or hs.get_as_short() != f"({exp_short},{exp_short})":
            out.bad("hedstring-forms-differ", f"{cfg}: {text!r}: {hs.get_as_long()!r} / {hs.get_as_short()!r}")
        import pandas as pd
        from hed.models import df_util
        ser = pd.Series([text, f"({text})"])
        df_util.convert_to_form(ser, sch, "long_tag")
        if list(ser) != [exp_long, f"({exp_long})"]:
            out.bad("series-long-differs", f"{cfg}: {text!r}: {list(ser)}")
        df = pd.DataFrame({"a": [text], "b": [exp_long]})
        df_util.convert_to_form(df, sch, "short_tag")
        if list(df["a"]) != [exp_short] or list(df["b"]) != [exp_short]:
            out.bad("dataframe-short-differs", f"{cfg}: {text!r}: {df.values.tolist()}")


def oracle_enum(case):
    cfg, node_long, spelling, suffix = case
    out = Outcome()
    m, sch, ns = get_config(cfg)
    node = m.by_long[node_long.casefold()]
    out.nontrivial = (spelling != node.short) or bool(suffix) or bool(ns)
    check_spelling(cfg, node_long, spelling, suffix, out)
    return out


def make_enum(configs):
    def enum(shard, nshards):
        def gen():
            for cfg in configs:
                m, sch, ns = get_config(cfg)
                for node in m.nodes:
                    sfx = suffix_for(node, m)
                    for sp in m.suffix_paths(node):
                        seen = set()
                        for fn in CASEFNS.values():
                            s = fn(sp)
                            if s in seen:
                                continue
                            seen.add(s)
                            yield (cfg, node.long, s, "")
                            yield (cfg, node.long, s, sfx)
        return itertools.islice(gen(), shard, None, nshards)
    return enum


VALUE_CHARS = "abcXYZ019 -_.:#$%^&*+=<>?!'\"éßİ日"
value_text = st.text(alphabet=VALUE_CHARS, min_size=1, max_size=12).map(lambda s: s.strip(" ")).filter(bool)
ext_term = st.text(alphabet="abcdefXYZ019-_", min_size=2, max_size=10).map(lambda s: "Q" + s + "q7")


def random_strategy(configs):
    @st.composite
    def strat(draw):
        cfg = draw(st.sampled_from(configs))
        m, sch, ns = get_config(cfg)
        idx = draw(st.integers(0, len(m.nodes) - 1))
        node = m.nodes[idx]
        paths = m.suffix_paths(node)
        sp = paths[draw(st.integers(0, len(paths) - 1))]
        mask = draw(st.lists(st.booleans(), min_size=len(sp), max_size=len(sp)))
        sp = "".join(ch.swapcase() if b else ch for ch, b in zip(sp, mask))
        kind = draw(st.sampled_from(["none", "suffix", "suffix", "hash"]))
        suffix = ""
        if kind == "hash" and node.placeholder is not None:
            suffix = "/#"
        elif kind != "none":
            if node.placeholder is not None:
                suffix = "/" + draw(value_text)
                if draw(st.booleans()):
                    suffix += "/" + draw(value_text)
            else:
                suffix = "/" + draw(ext_term)
                if draw(st.integers(0, 3)) == 0:
                    suffix += "/" + draw(ext_term)
        return {"cfg": cfg, "node": node.long, "spelling": sp, "suffix": suffix}
    return strat()


def oracle_random(case):
    out = Outcome()
    m, sch, ns = get_config(case["cfg"])
    node = m.by_long[case["node"].casefold()]
    suffix = case["suffix"]
    # sound-first: an extension term must not be an existing schema term (that is an error by the rules)
    if node.placeholder is None and suffix:
        if any(t.casefold() in m.by_short for t in suffix[1:].split("/")):
            return out
    out.nontrivial = (case["spelling"] != node.short) or bool(suffix) or bool(ns)
    out.classes = tuple(c for c, ok in (("suffix", bool(suffix)), ("partial-path", "/" in case["spelling"]),
                                        ("namespace", bool(ns)), ("value-node", node.placeholder is not None),
                                        ("case-changed", case["spelling"] not in m.suffix_paths(node))) if ok)
    check_spelling(case["cfg"], case["node"], case["spelling"], suffix, out, heavy=True)
    return out


def parts(tier):
    configs = QUICK_CONFIGS if tier == "quick" else list(CONFIGS)
    n = 3000 if tier == "quick" else 40000
    return [Part("vocabulary", oracle_enum, enumerate_fn=make_enum(configs), exhaustive=True),
            Part("random", oracle_random, strategy=random_strategy(configs), n=n)]


def extra_evidence(tier):
    configs = QUICK_CONFIGS if tier == "quick" else list(CONFIGS)
    return {"schema_configurations": configs}
