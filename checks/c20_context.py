"""C20 — Temporal context of every event equals the set of processes ongoing at that time."""
import io

from hypothesis import strategies as st

from vlib.core import Outcome, Part
from vlib import gen_events, hedenv

PROPERTY = "C20"
LEVEL = "exploration"
SHARDS = {"quick": 8, "thorough": 16}
TECHNIQUE = "Hypothesis-generated valid event histories against a reference interval model (process start/end, " \
            "context sets per time point); rejection of unordered files"
LEVEL_TEXT = ("Valid histories (Onset/Offset pairs over plain and valued definitions, restarts, open-ended processes, "
              "Duration groups in several unit spellings incl. ends exactly on a later time point and beyond the last "
              "row, Delay-shifted groups, equal-onset rows, plain tags) are given to EventManager / HedTagManager; for "
              "every time point the processes found in contexts, base and the Event-context group must equal the "
              "reference interval model, event_list start/end indexes must point at the model's time points, the "
              "remaining annotation keeps all plain tags and no temporal group, and unordered onsets raise "
              "HedFileError.")
LEVEL_NOTE = "trusted: the interval model in this module; process identity via unique Label/q<N>z tags"
RULE = ("Hypothesis rows (<=8) advancing by multiples of 0.25 s; each row may start an Onset process, close or restart "
        "an open one, add a Duration group (0.25-3 s in s/ms/plural/upper-case spellings) or Delay-shift either "
        "(0.25-1 s). Non-trivial = some process spans >=1 intermediate time point; classes: ends-exactly-on-point, "
        "restart, beyond-last-row, delay, equal-onset rows.")
ASSUMPTIONS = ["all times are multiples of 0.25 (exact in binary floating point), so 'start + duration' is exact",
               "contexts are evaluated at the first row of each time point (rows merged into an earlier row of the "
               "same onset are hollow)", "schema 8.3.0; definitions A, B, C/#, D/# supplied as extra definitions"]

VERSION = "8.3.0"
DUR_SPELLINGS = [("{s} s", 1), ("{s} second", 1), ("{s} Seconds", 1), ("{ms} ms", 1000), ("{ms} milliseconds", 1000),
                 ("{s} SECONDS", 1)]
LONG_TEMPORAL = "Property/Data-property/Data-value/Spatiotemporal-value/Temporal-value/"
LONG_ORG = "Property/Organizational-property/"
LONG_MARK = "Property/Data-property/Data-marker/Temporal-marker/"
_dd = {}


def def_dict():
    from hed.models.definition_dict import DefinitionDict
    if "dd" not in _dd:
        _dd["dd"] = DefinitionDict(gen_events.DEFS, hedenv.schema(VERSION))
    return _dd["dd"]


def num(x):
    s = repr(float(x))
    return s[:-2] if s.endswith(".0") else s


@st.composite
def history(draw):
    """Rows with explicit process records. Returns {"rows": [{"onset", "items": [text...]}], "procs": [...],
    "fillers": {row: [tags]}}."""
    nrows = draw(st.integers(2, 8))
    t = 1.0
    rows = []
    procs = []      # {"id", "start", "end" (None = end of file), "kind", "label"}
    open_by_key = {}
    pid = 0
    fill = list(gen_events.FILLERS[:10])
    used_keys_at = {}     # effective time -> set of keys used by markers
    for r in range(nrows):
        if r > 0 and draw(st.integers(0, 3)) > 0:
            t += draw(st.sampled_from([0.25, 0.5, 1.0, 2.0]))
        items = []
        if fill and draw(st.booleans()):
            items.append(fill.pop(0))
        if draw(st.integers(0, 3)) == 0:
            # experimental-design tags, which views of the manager may be asked to leave out
            items.append(draw(st.sampled_from([f"Task/Tk{r}", f"Condition-variable/Cv{r}"])))
        nact = draw(st.integers(0, 2))
        for _ in range(nact):
            act = draw(st.sampled_from(["onset", "onset", "close", "duration", "duration"]))
            delay = draw(st.sampled_from([0.25, 0.5, 1.0])) if draw(st.integers(0, 3)) == 0 else None
            te = t + (delay or 0.0)
            # reserved tags in any accepted spelling: letter case, long form
            delay_tag = draw(st.sampled_from(["Delay", "Delay", "delay", "DELAY", LONG_TEMPORAL + "Delay"]))
            dtxt = f"{delay_tag}/{num(delay)} s, " if delay else ""
            if act == "duration":
                pid += 1
                dur = draw(st.sampled_from([0.25, 0.5, 1.0, 1.5, 3.0]))
                sp, mult = draw(st.sampled_from(DUR_SPELLINGS))
                dtext = sp.format(s=num(dur), ms=num(dur * mult))
                label = f"Label/q{pid}z"
                dur_tag = draw(st.sampled_from(["Duration", "Duration", "duration", "DURATION", LONG_TEMPORAL + "Duration"]))
                items.append(f"({dtxt}{dur_tag}/{dtext}, ({label}))")
                procs.append({"id": pid, "start": te, "end_time": te + dur, "kind": "duration", "label": label})
                continue
            name = draw(st.sampled_from(["A", "a", "B", "C/1", "c/1", "C/2", "D/Left", "d/left"]))
            k = name.casefold()
            if k in used_keys_at.setdefault(te, set()):
                continue
            # the scope must be consistent at its effective time: only act on keys whose last change is earlier
            last = open_by_key.get(k)
            if last is not None and last["changed"] >= te:
                continue
            if act == "close":
                if last is None or not last["open"]:
                    continue
                used_keys_at[te].add(k)
                off = draw(st.sampled_from(["Offset", "Offset", "offset", "OFFSET", LONG_MARK + "Offset"]))
                dfn = draw(st.sampled_from(["Def", "Def", "def", "DEF", LONG_ORG + "Def"]))
                items.append(f"({dtxt}{off}, {dfn}/{name})")
                last["proc"]["end"] = te
                open_by_key[k] = {"open": False, "changed": te, "proc": None}
            else:
                used_keys_at[te].add(k)
                pid += 1
                label = f"Label/q{pid}z"
                ons = draw(st.sampled_from(["Onset", "Onset", "onset", "ONSET", LONG_MARK + "Onset"]))
                dfn = draw(st.sampled_from(["Def", "Def", "def", "DEF", LONG_ORG + "Def"]))
                items.append(f"({dtxt}{dfn}/{name}, {ons}, ({label}))")
                if last is not None and last["open"]:
                    last["proc"]["end"] = te          # a restart ends the running process
                    last["proc"]["restarted"] = True
                p = {"id": pid, "start": te, "end": None, "kind": "onset", "label": label, "key": k}
                procs.append(p)
                open_by_key[k] = {"open": True, "changed": te, "proc": p}
        rows.append({"onset": t, "items": items})
    return {"rows": rows, "procs": procs}


def to_tsv(rows):
    lines = ["onset\tduration\tHED"]
    for r in rows:
        lines.append(f"{num(r['onset'])}\tn/a\t{', '.join(r['items']) if r['items'] else 'n/a'}")
    return "\n".join(lines) + "\n"


def time_points(case):
    pts = {r["onset"] for r in case["rows"]}
    for p in case["procs"]:
        pts.add(p["start"])
    # delayed Offsets create time points too
    import re
    for r in case["rows"]:
        for it in r["items"]:
            m = re.match(r"\((?:[A-Za-z/-]*/)?delay/([0-9.]+) s, ", it, re.IGNORECASE)
            if m:
                pts.add(r["onset"] + float(m.group(1)))
    return sorted(pts)


def proc_end_point(p, pts):
    """Time from which the process is no longer ongoing (None = runs to the end of the file)."""
    if p["kind"] == "onset":
        return p["end"]
    later = [t for t in pts if t >= p["end_time"]]
    return later[0] if later else None


def oracle(case):
    from hed.models.tabular_input import TabularInput
    from hed.tools.analysis.event_manager import EventManager
    from hed.tools.analysis.hed_tag_manager import HedTagManager
    out = Outcome()
    rows, procs = case["rows"], case["procs"]
    pts = time_points(case)
    sch = hedenv.schema(VERSION)
    tsv = to_tsv(rows)
    cls = set()
    spans = False
    for p in procs:
        endp = proc_end_point(p, pts)
        inter = [t for t in pts if p["start"] < t and (endp is None or t < endp)]
        if inter:
            spans = True
        if p["kind"] == "duration":
            if p["end_time"] in pts:
                cls.add("ends-exactly-on-point")
            if endp is None:
                cls.add("beyond-last-row")
        if p.get("restarted"):
            cls.add("restart")
    if "delay/" in tsv.casefold():
        cls.add("delay")
    if len({r["onset"] for r in rows}) < len(rows):
        cls.add("equal-onset-rows")
    out.classes = tuple(sorted(cls))
    out.nontrivial = spans
    try:
        tab = TabularInput(io.StringIO(tsv), name="h")
        em = EventManager(tab, sch, extra_defs=def_dict())
    except Exception as exc:  # noqa
        from vlib.core import crash_signature
        return out.bad(crash_signature(exc, "event-manager-raises") or f"event-manager-raises:{type(exc).__name__}",
                       f"{exc!r}\n{tsv}")
    onsets = [float(x) for x in em.onsets]
    if onsets != sorted(onsets):
        out.bad("entries-not-in-time-order", f"{onsets}\n{tsv}")
    rep = {}
    for i, t in enumerate(onsets):
        rep.setdefault(round(t, 6), i)
    if sorted(rep) != [round(t, 6) for t in pts]:
        return out.bad("time-points-differ", f"manager {sorted(rep)} model {pts}\n{tsv}")
    try:
        tm = HedTagManager(em)
        objs = tm.get_hed_objs(include_context=True)
    except Exception as exc:  # noqa
        from vlib.core import crash_signature
        return out.bad(crash_signature(exc, "tag-manager-raises") or f"tag-manager-raises:{type(exc).__name__}",
                       f"{exc!r}\n{tsv}")
    # object history: asking again, asking without context, and a second manager over the same input object
    try:
        before = [str(o) if o is not None else None for o in objs]
        plain = tm.get_hed_objs(include_context=False)
        stored = [str(h) for h in em.hed_strings]
        view = HedTagManager(em, remove_types=["Condition-variable", "Task"])      # a filtered view for another consumer
        vtext = " ".join(str(o) for o in view.get_hed_objs(include_context=False) if o is not None)
        if "Task/Tk" in vtext or "Condition-variable/Cv" in vtext:
            out.bad("removed-type-still-in-filtered-view", f"{vtext!r}\n{tsv}")
        if [str(h) for h in em.hed_strings] != stored:
            out.bad("filtered-view-changed-the-manager", f"{stored} -> {[str(h) for h in em.hed_strings]}\n{tsv}")
        objs_again = tm.get_hed_objs(include_context=True)
        em2 = EventManager(tab, sch, extra_defs=def_dict())
    except Exception as exc:  # noqa
        from vlib.core import crash_signature
        return out.bad(crash_signature(exc, "second-use-raises") or f"second-use-raises:{type(exc).__name__}",
                       f"{exc!r}\n{tsv}")
    if before != [str(o) if o is not None else None for o in objs_again]:
        out.bad("context-objects-differ-on-second-call", f"{before} vs {[str(o) for o in objs_again]}\n{tsv}")
    if any(o is not None and "Event-context" in str(o) for o in plain):
        out.bad("context-present-when-not-asked-for", f"{[str(o) for o in plain]}\n{tsv}")
    if [str(c) for c in em2.contexts] != [str(c) for c in em.contexts] or \
            [float(x) for x in em2.onsets] != onsets:
        out.bad("second-manager-over-same-input-differs", f"{[str(c) for c in em.contexts]} vs "
                                                          f"{[str(c) for c in em2.contexts]}\n{tsv}")
    for t in pts:
        i = rep[round(t, 6)]
        exp_ctx = {p["label"] for p in procs if p["start"] < t and
                   (proc_end_point(p, pts) is None or t < proc_end_point(p, pts))}
        exp_base = {p["label"] for p in procs if p["start"] == t}
        got_ctx = {p["label"] for p in procs if p["label"] in em.contexts[i]}
        got_base = {p["label"] for p in procs if p["label"] in em.base[i]}
        if got_ctx != exp_ctx:
            missing, extra = sorted(exp_ctx - got_ctx), sorted(got_ctx - exp_ctx)
            kinds = {p["kind"] for p in procs if p["label"] in set(missing) | set(extra)}
            why = "missing" if missing and not extra else ("extra" if extra and not missing else "both")
            out.bad(f"context-differs:{why}:{'+'.join(sorted(kinds))}",
                    f"time {t} (index {i}): context has {sorted(got_ctx)} expected {sorted(exp_ctx)}\n{tsv}")
        if got_base != exp_base:
            out.bad("base-differs", f"time {t} (index {i}): base has {sorted(got_base)} expected {sorted(exp_base)}"
                                    f"\n{tsv}")
        rest = str(em.hed_strings[i])
        leaked = [p["label"] for p in procs if p["label"] in rest]
        if leaked:
            out.bad("temporal-group-left-in-remaining-annotation", f"time {t}: {rest!r} holds {leaked}\n{tsv}")
        obj = objs[i]
        otext = str(obj) if obj is not None else ""
        in_ec = set()
        if "Event-context" in otext:
            for g in obj.find_top_level_tags({"Event-context"}, include_groups=1):
                in_ec |= {p["label"] for p in procs if p["label"] in str(g)}
        if in_ec != exp_ctx:
            out.bad("event-context-group-differs", f"time {t}: {otext!r} expected context {sorted(exp_ctx)}\n{tsv}")
    # rows that share an onset act as one time point: the further entries of that time carry the same context and
    # nothing of their own
    for j, tj in enumerate(onsets):
        i0 = rep[round(tj, 6)]
        if j == i0:
            continue
        exp_ctx = {p["label"] for p in procs if p["start"] < round(tj, 6) and
                   (proc_end_point(p, pts) is None or round(tj, 6) < proc_end_point(p, pts))}
        got_ctx = {p["label"] for p in procs if p["label"] in em.contexts[j]}
        if got_ctx != exp_ctx:
            out.bad("context-differs-on-further-row-of-a-time-point", f"time {tj} (index {j}, first index {i0}): context "
                                                                      f"has {sorted(got_ctx)} expected {sorted(exp_ctx)}\n{tsv}")
            break
    # plain tags are kept at their time point
    for r in rows:
        i = rep[round(r["onset"], 6)]
        for it in r["items"]:
            if not it.startswith("(") and it not in str(em.hed_strings[i]):
                out.bad("plain-tag-lost", f"{it!r} of time {r['onset']} not in {str(em.hed_strings[i])!r}\n{tsv}")
    # event list: each started process is listed at its start point with the model's end
    listed = {}
    for idx, events in enumerate(em.event_list):
        for ev in events:
            lab = [p["label"] for p in procs if p["label"] in str(ev.contents)]
            if lab:
                listed[lab[0]] = (idx, ev)
    for p in procs:
        if p["label"] not in listed:
            out.bad("process-not-listed", f"{p}\n{tsv}")
            continue
        idx, ev = listed[p["label"]]
        if round(onsets[ev.start_index], 6) != round(p["start"], 6) or idx != ev.start_index:
            out.bad("process-start-index-differs", f"{p}: start_index {ev.start_index} -> {onsets[ev.start_index]}"
                                                   f"\n{tsv}")
        endp = proc_end_point(p, pts)
        if endp is None:
            ok = ev.end_index == len(onsets)
        else:
            ok = ev.end_index is not None and ev.end_index < len(onsets) and \
                round(onsets[ev.end_index], 6) == round(endp, 6)
        if not ok:
            out.bad(f"process-end-index-differs:{p['kind']}", f"{p}: end_index {ev.end_index} (of {len(onsets)}) "
                                                              f"expected end point {endp}\n{tsv}")
    return out


@st.composite
def unordered(draw):
    case = draw(history())
    rows = case["rows"]
    onsets = sorted({r["onset"] for r in rows})
    return {"rows": rows, "swap": draw(st.integers(0, max(0, len(rows) - 2)))}


def oracle_unordered(case):
    from hed.models.tabular_input import TabularInput
    from hed.tools.analysis.event_manager import EventManager
    from hed.errors.exceptions import HedFileError
    out = Outcome()
    rows = [dict(r) for r in case["rows"]]
    i = case["swap"]
    if len(rows) < 2 or rows[i]["onset"] == rows[i + 1]["onset"]:
        return out
    rows[i]["onset"], rows[i + 1]["onset"] = rows[i + 1]["onset"], rows[i]["onset"]
    out.nontrivial = True
    tsv = to_tsv(rows)
    try:
        EventManager(TabularInput(io.StringIO(tsv), name="h"), hedenv.schema(VERSION), extra_defs=def_dict())
    except HedFileError:
        return out
    except Exception as exc:  # noqa
        return out.bad(f"unordered-file-other-exception:{type(exc).__name__}", f"{exc!r}\n{tsv}")
    return out.bad("unordered-file-accepted", tsv)


def oracle_reused_input(case):
    """The same input object, accepted while in order, then edited in place so that its onsets are out of order
    (and the reverse): every manager judges the table as it is now."""
    from hed.models.tabular_input import TabularInput
    from hed.tools.analysis.event_manager import EventManager
    from hed.errors.exceptions import HedFileError
    out = Outcome()
    rows = [dict(r) for r in case["rows"]]
    i = case["swap"]
    if len(rows) < 2 or rows[i]["onset"] == rows[i + 1]["onset"]:
        return out
    out.nontrivial = True
    tab = TabularInput(io.StringIO(to_tsv(rows)), name="h")
    sch = hedenv.schema(VERSION)

    def accepted():
        try:
            EventManager(tab, sch, extra_defs=def_dict())
            return True
        except HedFileError:
            return False

    verdicts = [accepted()]
    col = list(tab.dataframe.columns).index("onset")
    for _ in range(2):          # swap two onsets in place, then swap them back
        a, b = tab.dataframe.iloc[i, col], tab.dataframe.iloc[i + 1, col]
        tab.dataframe.iloc[i, col], tab.dataframe.iloc[i + 1, col] = b, a
        verdicts.append(accepted())
    if verdicts != [True, False, True]:
        out.bad("verdict-on-reused-input-ignores-in-place-edit", f"accepted in order / after swap / swapped back: "
                                                                  f"{verdicts}\n{to_tsv(rows)}")
    return out


def describe(case):
    return {"tsv": to_tsv(case["rows"]), "processes": case.get("procs")}


def warmup(tier):
    hedenv.schema(VERSION)
    def_dict()


def parts(tier):
    q = tier == "quick"
    return [Part("contexts", oracle, strategy=history(), n=600 if q else 128000, describe=describe),
            Part("unordered", oracle_unordered, strategy=unordered(), n=150 if q else 16000, describe=describe),
            Part("reused-input", oracle_reused_input, strategy=unordered(), n=100 if q else 8000, describe=describe)]
