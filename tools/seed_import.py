#!/venv/bin/python
"""Confirm a seeded change produced by a sub-agent and store it under /verif/seeded/<name>/.

usage: tools/seed_import.py <dir with patch.diff demo.py notes.md> <name e.g. C03_1> <property id>
Confirms, on a scratch copy of /repo (outside /repo and /verif, deleted afterwards):
  1. the patch applies; 2. the 690-test baseline still passes with it; 3. demo.py exits 0 on the clean tree and
  non-zero with the patch.  Writes meta.json with what was run.
"""
import json, os, shutil, subprocess, sys, tempfile, time

def run(cmd, **kw):
    return subprocess.run(cmd, capture_output=True, text=True, **kw)

def main():
    src, name, prop = sys.argv[1], sys.argv[2], sys.argv[3]
    scratch = tempfile.mkdtemp(prefix="hedseed_", dir="/var/tmp")
    dst = os.path.join(scratch, "repo")
    meta = {"name": name, "property": prop, "confirmed_at": time.strftime("%Y-%m-%d %H:%M:%S"), "ran": []}
    try:
        run(["rsync", "-a", "--exclude", ".git", "--exclude", "__pycache__", "/repo/", dst + "/"])
        env = dict(os.environ, HOME=scratch, PYTHONPATH=dst)
        demo = os.path.join(src, "demo.py")
        d0 = run(["/venv/bin/python", "-W", "ignore", demo], env=env, cwd=scratch)
        meta["ran"].append(f"demo.py on unchanged copy of /repo HEAD: exit {d0.returncode}")
        r = run(["git", "apply", "--unsafe-paths", "--directory", dst, os.path.join(os.path.abspath(src), "patch.diff")], cwd="/")
        meta["ran"].append(f"git apply patch.diff: exit {r.returncode} {r.stderr[:200]}")
        if r.returncode != 0:
            print("PATCH FAILS", r.stderr); return 1
        d1 = run(["/venv/bin/python", "-W", "ignore", demo], env=env, cwd=scratch)
        meta["ran"].append(f"demo.py with patch: exit {d1.returncode}: {(d1.stderr or d1.stdout)[-300:]}")
        b = run(["/venv/bin/python", "/verif/tools/baseline.py", dst])
        last = b.stdout.strip().splitlines()[-1] if b.stdout.strip() else ""
        meta["ran"].append(f"tools/baseline.py on patched copy: exit {b.returncode}: {last}")
        ok = d0.returncode == 0 and d1.returncode != 0 and b.returncode == 0
        meta["confirmed"] = ok
        notes = open(os.path.join(src, "notes.md")).read() if os.path.exists(os.path.join(src, "notes.md")) else ""
        meta["needs_to_manifest"] = notes
        print(name, "confirmed" if ok else "NOT CONFIRMED", meta["ran"])
        if ok:
            out = os.path.join("/verif/seeded", name)
            os.makedirs(out, exist_ok=True)
            for f in ("patch.diff", "demo.py", "notes.md"):
                if os.path.exists(os.path.join(src, f)):
                    shutil.copy(os.path.join(src, f), out)
            json.dump(meta, open(os.path.join(out, "meta.json"), "w"), indent=1)
        return 0 if ok else 1
    finally:
        shutil.rmtree(scratch, ignore_errors=True)

if __name__ == "__main__":
    sys.exit(main())
