#!/venv/bin/python
"""Run the repository's pinned test suite (guard OFF) and compare with /root/.vp/BASELINE.json.

usage: tools/baseline.py [repo_dir]
exit 0 iff every test listed in BASELINE.stable_pass passed.
"""
import json, os, subprocess, sys, tempfile, xml.etree.ElementTree as ET

def main():
    repo = sys.argv[1] if len(sys.argv) > 1 else "/repo"
    base = json.load(open("/root/.vp/BASELINE.json"))
    want = set(base["stable_pass"])
    tmp = tempfile.mkdtemp(prefix="hedbase_")
    junit = os.path.join(tmp, "j.xml")
    env = dict(os.environ)
    env.pop("HED_PYTHON_VERIF", None)
    env["HOME"] = tmp  # private hed cache
    env["PYTHONPATH"] = repo
    p = subprocess.run(["/venv/bin/python", "-m", "pytest", "-q", "-p", "no:cacheprovider", "--timeout=900",
                        "--continue-on-collection-errors", f"--junitxml={junit}"], cwd=repo, env=env,
                       stdout=subprocess.PIPE, stderr=subprocess.STDOUT, text=True)
    passed = set()
    for tc in ET.parse(junit).getroot().iter("testcase"):
        if not any(ch.tag in ("failure", "error", "skipped") for ch in tc):
            passed.add(f"{tc.get('classname')}::{tc.get('name')}")
    missing = sorted(want - passed)
    print(p.stdout.strip().splitlines()[-1] if p.stdout.strip() else "")
    print(f"baseline stable_pass={len(want)} passed_now={len(passed & want)} missing={len(missing)}")
    for m in missing[:40]:
        print("  MISSING", m)
    import shutil; shutil.rmtree(tmp, ignore_errors=True)
    return 1 if missing else 0

if __name__ == "__main__":
    sys.exit(main())
