#!/venv/bin/python
"""Run every sensitivity mutant (mutants/<ID>/*.json) and every confirmed seeded change (seeded/<ID>_k/patch.diff)
against its property's quick check on a scratch copy of /repo; write seeded/RESULTS.json and mutants/RESULTS.json.

usage: tools/kill_matrix.py [seeded|mutants|all] [--jobs N] [--seed S]
"""
import glob, json, os, re, subprocess, sys
from concurrent.futures import ThreadPoolExecutor

ROOT = os.path.dirname(os.path.dirname(os.path.abspath(__file__)))

def run_one(item):
    kind, prop, path, seed = item
    p = subprocess.run(["/venv/bin/python", os.path.join(ROOT, "tools", "mutation_run.py"), path, prop, "--seed", seed],
                       capture_output=True, text=True)
    sigs = re.findall(r"signature: (\S+)", p.stdout)
    m = re.search(r"== %s exit=(-?\d+)" % prop, p.stdout)
    rc = int(m.group(1)) if m else None
    return {"kind": kind, "property": prop, "change": os.path.relpath(path, ROOT), "check_exit": rc,
            "caught": rc == 1, "signatures": sorted(set(sigs))[:6],
            "note": "" if m else (p.stdout + p.stderr)[-300:]}

def main():
    what = sys.argv[1] if len(sys.argv) > 1 else "all"
    jobs = int(sys.argv[sys.argv.index("--jobs") + 1]) if "--jobs" in sys.argv else 3
    seed = sys.argv[sys.argv.index("--seed") + 1] if "--seed" in sys.argv else "1"
    seeds = sys.argv[sys.argv.index("--seeds") + 1].split(",") if "--seeds" in sys.argv else [seed]
    items = []
    if what in ("mutants", "all"):
        for f in sorted(glob.glob(os.path.join(ROOT, "mutants", "C*", "*.json"))):
            items += [("mutant", os.path.basename(os.path.dirname(f)), f, sd) for sd in seeds]
    if what in ("seeded", "all"):
        for f in sorted(glob.glob(os.path.join(ROOT, "seeded", "C*_*", "patch.diff"))):
            items += [("seeded", os.path.basename(os.path.dirname(f)).split("_")[0], f, sd) for sd in seeds]
    with ThreadPoolExecutor(jobs) as ex:
        results = list(ex.map(run_one, items))
    # merge the runs of one change over the seeds: caught = caught at every seed
    merged = {}
    for r, it in zip(results, items):
        m = merged.setdefault(r["change"], dict(r, caught_at_seeds=[], missed_at_seeds=[], signatures=[]))
        (m["caught_at_seeds"] if r["caught"] else m["missed_at_seeds"]).append(it[3])
        m["signatures"] = sorted(set(m["signatures"]) | set(r["signatures"]))[:6]
        m["caught"] = not m["missed_at_seeds"]
        if r["note"]:
            m["note"] = r["note"]
    results = list(merged.values())
    seed = ",".join(seeds)
    for kind in ("mutant", "seeded"):
        rs = [r for r in results if r["kind"] == kind]
        if not rs:
            continue
        out = os.path.join(ROOT, "mutants" if kind == "mutant" else "seeded", "RESULTS.json")
        json.dump({"seed": seed, "tier": "quick", "results": rs}, open(out, "w"), indent=1)
        print(kind, "caught", sum(r["caught"] for r in rs), "of", len(rs))
        for r in rs:
            if not r["caught"]:
                print("  MISSED", r["change"], "at seeds", r["missed_at_seeds"], r["note"][:200])

if __name__ == "__main__":
    main()
