#!/venv/bin/python
"""Regenerate /verif/MANIFEST.json from the check modules' metadata (single source of truth)."""
import glob, importlib, json, os, sys
sys.path.insert(0, os.path.dirname(os.path.dirname(os.path.abspath(__file__))))
os.chdir(os.path.dirname(os.path.dirname(os.path.abspath(__file__))))

NOT_YET = {}  # property -> reason, for properties without a check

def main():
    props = [json.loads(l) for l in open("properties.jsonl")]
    checks = []
    na = []
    engines = {}
    for p in props:
        pid = p["id"]
        hits = glob.glob(f"checks/{pid.lower()}_*.py")
        if not hits:
            na.append({"property_id": pid, "reason": NOT_YET.get(pid, "check not built yet in this session; not claimed")})
            continue
        src = open(hits[0]).read()
        meta = {}
        # read module-level constants without importing hed
        ns = {}
        import ast
        tree = ast.parse(src)
        for node in tree.body:
            if isinstance(node, ast.Assign) and len(node.targets) == 1 and isinstance(node.targets[0], ast.Name):
                name = node.targets[0].id
                if name in ("LEVEL", "LEVEL_TEXT", "LEVEL_NOTE", "TECHNIQUE", "DESIGN_REF"):
                    ns[name] = ast.literal_eval(node.value)
        checks.append({
            "property_id": pid,
            "quick_cmd": f"./check {pid} --tier quick",
            "thorough_cmd": f"./check {pid} --tier thorough",
            "evidence_file": f"/verif/evidence/{pid}.json",
            "replay_cmd_template": f"./check {pid} --replay {{path}}",
            "engine": "vlib",
            "level_claimed": {"category": ns.get("LEVEL", "exploration"),
                              "text": ns.get("LEVEL_TEXT", "generated-input search against an explicit oracle"),
                              "design_ref": ns.get("DESIGN_REF", f"DESIGN.md section 2, {pid}")},
            "level_note": ns.get("LEVEL_NOTE", "trusted: the reference model in the check module, Hypothesis, CPython"),
            "technique": ns.get("TECHNIQUE", "property-based testing (Hypothesis) against a reference oracle"),
        })
    man = {
        "version": 1,
        "setup_cmd": "sh ./setup.sh",
        "hooks": {"guard": "HED_PYTHON_VERIF", "enable": "no source hooks are needed: checks import hed from /repo's working tree (editable install / PYTHONPATH) and observe public API results; fault and schedule injection wraps os/shutil/open from outside",
                  "baseline_off_cmd": "/venv/bin/python tools/baseline.py /repo",
                  "source_commits": [], "add_only": True},
        "engines": [{"name": "vlib", "path": "/verif/vlib", "serves_properties": [c["property_id"] for c in checks],
                     "kind_free_text": "Hypothesis-driven case generation (plus exhaustive enumeration of small finite domains) against per-property reference oracles; collect-classify-shrink runner with known-findings handling and evidence writer"}],
        "checks": checks,
        "not_applicable": na,
        "notes": "All checks: cwd=/verif, honour VERIF_SEED and VERIF_TIER, exit 0/1/2 = held / VIOLATION / harness error. Findings policy in known_findings.json and DESIGN.md section 3/7.",
    }
    json.dump(man, open("MANIFEST.json", "w"), indent=1)
    try:
        import jsonschema
        jsonschema.validate(man, json.load(open("/root/.vp/MANIFEST.schema.json")))
        print("MANIFEST.json valid;", len(checks), "checks;", len(na), "not_applicable")
    except ImportError:
        print("jsonschema not available; not validated")

if __name__ == "__main__":
    main()
