#!/venv/bin/python
"""Run checks against a scratch copy of /repo with one patch applied.

usage: tools/mutation_run.py <patch.diff> <ID>[,<ID>...] [--tier quick] [--seed N] [--demo demo.py]
The copy lives under /var/tmp (outside /repo and /verif) and is deleted afterwards.
Prints, per check, the exit code and any VIOLATION lines.  Exit 0 iff every listed check exited 1 (mutant killed).
"""
import argparse, os, shutil, subprocess, sys, tempfile

def main():
    ap = argparse.ArgumentParser()
    ap.add_argument("patch"); ap.add_argument("ids")
    ap.add_argument("--tier", default="quick"); ap.add_argument("--seed", default="1")
    ap.add_argument("--demo", default=None)
    a = ap.parse_args()
    scratch = tempfile.mkdtemp(prefix="hedmut_", dir="/var/tmp")
    dst = os.path.join(scratch, "repo")
    try:
        subprocess.run(["rsync", "-a", "--exclude", ".git", "--exclude", "__pycache__", "/repo/", dst + "/"], check=True)
        if a.patch.endswith(".json"):
            sys.path.insert(0, os.path.dirname(os.path.abspath(__file__)))
            import json, srcedit
            srcedit.apply_edits(dst, json.load(open(a.patch))["edits"])
        else:
            r = subprocess.run(["git", "apply", "--unsafe-paths", "--directory", dst, os.path.abspath(a.patch)],
                               cwd="/", capture_output=True, text=True)
            if r.returncode != 0:
                print("PATCH DOES NOT APPLY:", r.stdout, r.stderr); return 3
        env = dict(os.environ, VERIF_REPO=dst, VERIF_SEED=a.seed, PYTHONPATH=dst,
                   VERIF_EVIDENCE_DIR=os.path.join(scratch, "evidence"))
        if a.demo:
            d = subprocess.run(["/venv/bin/python", "-W", "ignore", os.path.abspath(a.demo)], env=dict(env, HOME=scratch),
                               capture_output=True, text=True, cwd=scratch)
            print(f"demo exit={d.returncode} {d.stdout[-300:]} {d.stderr[-300:]}")
        all_killed = True
        for pid in a.ids.split(","):
            p = subprocess.run(["/verif/check", pid, "--tier", a.tier], env=env, capture_output=True, text=True)
            lines = [l for l in p.stdout.splitlines() if l.startswith(("VIOLATION", "  signature", "  detail", "KNOWN", pid))]
            print(f"== {pid} exit={p.returncode}")
            print("\n".join(l[:300] for l in lines[:12]))
            if p.returncode == 2:
                print(p.stderr[-1500:])
            if p.returncode != 1:
                all_killed = False
        return 0 if all_killed else 1
    finally:
        shutil.rmtree(scratch, ignore_errors=True)

if __name__ == "__main__":
    sys.exit(main())
