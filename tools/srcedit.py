"""Line-ending tolerant exact-text replacement in a source tree (the repo mixes CRLF and LF files)."""
import json, os, sys

def apply_edits(root, edits):
    for e in edits:
        path = os.path.join(root, e["file"])
        data = open(path, "rb").read().decode("utf-8")
        crlf = "\r\n" in data
        norm = data.replace("\r\n", "\n")
        old, new = e["old"], e["new"]
        cnt = norm.count(old)
        if cnt != 1:
            raise SystemExit(f"edit of {e['file']}: 'old' text occurs {cnt} times (need exactly 1): {old[:80]!r}")
        norm = norm.replace(old, new)
        if crlf:
            norm = norm.replace("\n", "\r\n")
        open(path, "wb").write(norm.encode("utf-8"))

if __name__ == "__main__":
    root, spec = sys.argv[1], sys.argv[2]
    apply_edits(root, json.load(open(spec))["edits"])
