#!/venv/bin/python
"""Fill the MUTANT_TABLE / SEEDED_TABLE blocks of DESIGN.md from mutants/RESULTS.json and seeded/RESULTS.json."""
import json, os, re
ROOT = os.path.dirname(os.path.dirname(os.path.abspath(__file__)))

def mutant_table():
    d = json.load(open(os.path.join(ROOT, "mutants", "RESULTS.json")))
    by = {}
    for r in d["results"]:
        by.setdefault(r["property"], []).append(r)
    lines = ["| property | mutants | caught by the quick check | mutants (file name = what is changed) |", "|---|---|---|---|"]
    for p in sorted(by):
        rs = by[p]
        names = ", ".join(os.path.basename(r["change"])[:-5] + ("" if r["caught"] else " **(missed)**") for r in rs)
        lines.append(f"| {p} | {len(rs)} | {sum(r['caught'] for r in rs)} | {names} |")
    tot = sum(len(v) for v in by.values())
    lines.append(f"| all | {tot} | {sum(r['caught'] for v in by.values() for r in v)} | measured with seed {d['seed']}, quick tier |")
    return "\n".join(lines)

def seeded_table():
    d = json.load(open(os.path.join(ROOT, "seeded", "RESULTS.json")))
    lines = ["| change | file(s) changed | caught | signatures reported by the check |", "|---|---|---|---|"]
    for r in sorted(d["results"], key=lambda r: r["change"]):
        name = r["change"].split("/")[1]
        patch = open(os.path.join(ROOT, r["change"])).read()
        files = sorted(set(re.findall(r"^\+\+\+ b/(\S+)", patch, re.M)))
        sig = "; ".join(s[:70] for s in r["signatures"][:2])
        lines.append(f"| {name} | {', '.join(os.path.basename(f) for f in files)} | {'yes' if r['caught'] else '**no**'} | {sig} |")
    lines.append(f"| all | | {sum(r['caught'] for r in d['results'])} of {len(d['results'])} | seed {d['seed']}, quick tier |")
    return "\n".join(lines)

def main():
    p = os.path.join(ROOT, "DESIGN.md")
    s = open(p).read()
    for tag, fn in (("MUTANT_TABLE", mutant_table), ("SEEDED_TABLE", seeded_table)):
        block = f"<!-- {tag} begin -->\n{fn()}\n<!-- {tag} end -->"
        if f"<!-- {tag} begin -->" in s:
            s = re.sub(rf"<!-- {tag} begin -->.*?<!-- {tag} end -->", lambda m: block, s, flags=re.S)
        else:
            s = s.replace(tag, block, 1)
    open(p, "w").write(s)
    print("DESIGN.md tables updated")

if __name__ == "__main__":
    main()
