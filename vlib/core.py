"""Case runner shared by every check: generate -> oracle -> classify -> (shrink) -> evidence.

A check module (checks/cNN_*.py) exposes
    PROPERTY, LEVEL, RULE, ASSUMPTIONS
    def parts(tier) -> list[Part]
A Part generates JSON-serialisable cases either from a Hypothesis strategy (`strategy`, `n` cases)
or from a finite enumeration (`enumerate_fn(shard, nshards)` yielding cases).  `oracle(case)` returns an
`Outcome`.  Nothing here knows anything about HED.
"""
import hashlib
import json
import os
import sys
import time
import traceback

VERIF_DIR = os.path.dirname(os.path.dirname(os.path.abspath(__file__)))
REPO_DIR = os.path.realpath(os.environ.get("VERIF_REPO", "/repo"))


class HarnessError(Exception):
    """Something is wrong with the check itself (never reported as a violation)."""


class Outcome:
    __slots__ = ("violations", "nontrivial", "classes")

    def __init__(self, violations=None, nontrivial=False, classes=()):
        self.violations = list(violations or [])  # list of (signature:str, detail:str)
        self.nontrivial = bool(nontrivial)
        self.classes = tuple(classes)

    def bad(self, signature, detail=""):
        self.violations.append((str(signature), str(detail)[:2000]))
        return self


class Part:
    def __init__(self, name, oracle, strategy=None, n=0, enumerate_fn=None, shrink=True, sharded=True,
                 exhaustive=False, describe=None, setup=None, distinct_by_construction=True):
        self.name = name
        self.oracle = oracle
        self.strategy = strategy
        self.n = n
        self.enumerate_fn = enumerate_fn
        self.shrink = shrink
        self.sharded = sharded          # strategy parts: split n over shards (different seeds)
        self.exhaustive = exhaustive    # enumeration covers its finite domain completely
        self.distinct_by_construction = distinct_by_construction   # False: enumerated cases may coincide -> hashed
        self.describe = describe        # optional case -> short json-able sample rendering
        self.setup = setup              # optional callable run once per process before the part


def canonical(case):
    return json.dumps(case, sort_keys=True, ensure_ascii=True, default=repr)


def case_hash(case):
    return hashlib.sha1(canonical(case).encode()).hexdigest()[:16]


def hed_frame_signature(exc):
    """exception type + innermost frame inside the hed package: identifies a root cause, not an input."""
    tb = traceback.extract_tb(exc.__traceback__)
    where = None
    for fr in tb:
        fn = fr.filename.replace("\\", "/")
        if "/hed/" in fn and "/verif/" not in fn:
            where = f"{fn.split('/hed/', 1)[1]}:{fr.name}"
    return type(exc).__name__, where


def crash_signature(exc, prefix="crash"):
    name, where = hed_frame_signature(exc)
    if where is None:
        return None
    return f"{prefix}:{name}@{where}"


class KnownFindings:
    def __init__(self, prop):
        path = os.path.join(VERIF_DIR, "known_findings.json")
        self.known = {}
        self.fixed = {}
        if os.path.exists(path):
            data = json.load(open(path))
            for f in data.get("findings", []):
                if f.get("property") != prop:
                    continue
                if f.get("status") == "known":
                    self.known[f["signature"]] = f
                else:
                    self.fixed[f["signature"]] = f

    def is_known(self, sig):
        return sig in self.known


class Stats:
    """Mergeable statistics of one (part, shard)."""

    def __init__(self):
        self.evaluations = 0
        self.nontrivial = 0
        self.nontrivial_hashes = set()
        self.distinct_extra = 0    # distinct by construction (enumerated parts): counted, not hashed
        self.classes = {}
        self.samples = []          # (case) few
        self.first_by_sig = {}     # sig -> (part, case, detail)
        self.count_by_sig = {}
        self.harness_errors = []

    def distinct(self):
        return len(self.nontrivial_hashes) + self.distinct_extra

    def to_json(self):
        return {"evaluations": self.evaluations, "nontrivial": self.nontrivial,
                "nontrivial_hashes": sorted(self.nontrivial_hashes), "distinct_extra": self.distinct_extra,
                "classes": self.classes,
                "samples": self.samples, "first_by_sig": self.first_by_sig, "count_by_sig": self.count_by_sig,
                "harness_errors": self.harness_errors}

    @staticmethod
    def merge(dicts):
        s = Stats()
        for d in dicts:
            s.evaluations += d["evaluations"]
            s.nontrivial += d["nontrivial"]
            s.nontrivial_hashes.update(d["nontrivial_hashes"])
            s.distinct_extra += d.get("distinct_extra", 0)
            for k, v in d["classes"].items():
                s.classes[k] = s.classes.get(k, 0) + v
            s.samples.extend(d["samples"])
            for k, v in d["first_by_sig"].items():
                cur = s.first_by_sig.get(k)
                if cur is None or len(canonical(v["case"])) < len(canonical(cur["case"])):
                    s.first_by_sig[k] = v
            for k, v in d["count_by_sig"].items():
                s.count_by_sig[k] = s.count_by_sig.get(k, 0) + v
            s.harness_errors.extend(d["harness_errors"])
        return s


MAX_HASHES = 400000


def evaluate(part, case, stats, sample_every):
    """Run the oracle on one case and book-keep. Exceptions escaping the oracle with a frame in hed/ are crashes
    of the code under test; any other exception is a harness error."""
    try:
        out = part.oracle(case)
    except HarnessError:
        raise
    except RecursionError as exc:
        sig = crash_signature(exc) or "crash:RecursionError"
        out = Outcome(nontrivial=True).bad(sig, "RecursionError")
    except Exception as exc:  # noqa
        sig = crash_signature(exc)
        if sig is None:
            raise HarnessError(f"oracle of part {part.name} raised outside hed: {exc!r}\n{traceback.format_exc()}")
        out = Outcome(nontrivial=True).bad(sig, "".join(traceback.format_exception_only(type(exc), exc))[:500])
    stats.evaluations += 1
    for c in out.classes:
        stats.classes[c] = stats.classes.get(c, 0) + 1
    if out.nontrivial:
        stats.nontrivial += 1
        if part.enumerate_fn is not None and part.distinct_by_construction:
            stats.distinct_extra += 1
        elif len(stats.nontrivial_hashes) < MAX_HASHES:
            stats.nontrivial_hashes.add(case_hash(case))
        if len(stats.samples) < 4 or (stats.nontrivial % sample_every == 0 and len(stats.samples) < 12):
            stats.samples.append({"part": part.name, "case": part.describe(case) if part.describe else case})
    for sig, detail in out.violations:
        stats.count_by_sig[sig] = stats.count_by_sig.get(sig, 0) + 1
        if sig not in stats.first_by_sig:
            stats.first_by_sig[sig] = {"part": part.name, "case": case, "detail": detail}
    return out


def _hyp_settings(n, shrink):
    from hypothesis import settings, Phase, HealthCheck
    phases = [Phase.generate, Phase.shrink] if shrink else [Phase.generate]
    return settings(max_examples=n, phases=phases, database=None, deadline=None, derandomize=False,
                    report_multiple_bugs=False, print_blob=False,
                    suppress_health_check=[HealthCheck.too_slow, HealthCheck.data_too_large,
                                           HealthCheck.large_base_example])


def run_strategy_part(part, n, seed_value, stats):
    from hypothesis import given, seed
    sample_every = max(1, n // 8)

    @seed(seed_value)
    @_hyp_settings(n, shrink=False)
    @given(part.strategy)
    def runner(case):
        evaluate(part, case, stats, sample_every)

    runner()


def shrink_signature(part, sig, n, seed_value, first_case, budget_s=120):
    """Re-run the same generator with the same seed, failing exactly when `sig` is produced, and let Hypothesis
    shrink. Returns the smallest failing case seen (falls back to the first found)."""
    if part.strategy is None or not part.shrink:
        return first_case
    from hypothesis import given, seed
    best = {"case": first_case, "size": len(canonical(first_case))}
    t0 = time.time()

    class _Found(Exception):
        pass

    @seed(seed_value)
    @_hyp_settings(n, shrink=True)
    @given(part.strategy)
    def runner(case):
        if time.time() - t0 > budget_s:
            return
        dummy = Stats()
        try:
            out = evaluate(part, case, dummy, 10 ** 9)
        except HarnessError:
            return
        if any(s == sig for s, _ in out.violations):
            size = len(canonical(case))
            if size <= best["size"]:
                best["case"], best["size"] = case, size
            raise _Found()

    try:
        runner()
    except _Found:
        pass
    except Exception:  # hypothesis wrapping (Flaky etc.): keep what we have
        pass
    return best["case"]


def run_enum_part(part, shard, nshards, stats):
    sample_every = 5000
    for case in part.enumerate_fn(shard, nshards):
        evaluate(part, case, stats, sample_every)


def write_evidence(prop, tier, seed_value, level, stats, rule, assumptions, wall, violations, exhaustive, extra):
    # sensitivity runs against a changed scratch copy (tools/mutation_run.py) must not overwrite the evidence of /repo
    ev_dir = os.environ.get("VERIF_EVIDENCE_DIR") or os.path.join(VERIF_DIR, "evidence")
    os.makedirs(ev_dir, exist_ok=True)
    samples = stats.samples[:12]
    if not samples:
        samples = [{"note": "no non-trivial case produced"}]
    cov = {"evaluations": stats.evaluations,
           "distinct_nontrivial": stats.distinct(),
           "nontrivial_evaluations": stats.nontrivial,
           "rule": rule,
           "samples": samples,
           "classes": dict(sorted(stats.classes.items())),
           "exhaustive": bool(exhaustive),
           "signatures_seen": dict(sorted(stats.count_by_sig.items()))}
    cov.update(extra or {})
    ev = {"property_id": prop, "tier": tier, "seed": int(seed_value), "level": level, "coverage": cov,
          "assumptions": list(assumptions), "wall_s": round(wall, 2), "violations": int(violations)}
    path = os.path.join(ev_dir, f"{prop}.json")
    with open(path, "w") as fp:
        json.dump(ev, fp, indent=1, sort_keys=True, default=repr)
    return path
