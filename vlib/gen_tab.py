"""Sidecar / events-table generators and the reference assembler (C06, C07, C08, C12, C16).

A sidecar spec is a JSON-able dict {column: {"kind": categorical|value|ignored, ...}} from which the JSON sidecar is
rendered; annotation templates are gen_hed trees in which a leaf may be a column reference {"ref": name}.
"""
import copy

from hypothesis import strategies as st

from vlib import gen_hed

COLS = ["trial_type", "resp", "stim_file", "rt", "cond", "blockx"]
KEYS = ["go", "stop", "left", "right", "k1", "k2", "Aa", "7"]


def make_ref(name):
    return {"t": "{" + name + "}", "id": "ref:" + name, "kind": "ref", "ref": name}


@st.composite
def template(draw, version, used, refs=(), max_depth=2, placeholder=False, max_children=3):
    """An annotation tree (no special tags) with the given column references spliced in at generated positions and,
    for value columns, exactly one 'Node/#' tag."""
    ann = draw(gen_hed.annotation(version, allow_placeholder=False, max_depth=max_depth, with_defs=False,
                                  vary=draw(st.booleans()), specials=False, used=used, max_children=max_children))
    tree = ann["tree"]
    if placeholder:
        pl = gen_hed.pool(version)
        cands = [n for n in pl.valued if n.long not in used]
        node = cands[draw(st.integers(0, len(cands) - 1))]
        used.add(node.long)
        item = gen_hed.make_tag(f"{node.short}/#", gen_hed.tag_id(node, "#"), node=node.long, kind="placeholder")
        path, lst = draw(st.sampled_from(list(gen_hed.all_groups(tree))))
        lst.insert(draw(st.integers(0, len(lst))), item)
    for r in refs:
        how = draw(st.integers(0, 3))
        spots = list(gen_hed.all_groups(tree))
        path, lst = draw(st.sampled_from(spots))
        if how == 0:   # alone in its own group
            lst.insert(draw(st.integers(0, len(lst))), gen_hed.make_group([make_ref(r)]))
        else:
            lst.insert(draw(st.integers(0, len(lst))), make_ref(r))
    return tree


@st.composite
def sidecar_spec(draw, version, min_cols=1, max_cols=4, allow_refs=True, used=None, hed_column=False):
    """A structurally valid sidecar spec with individually valid annotations.
    Returns {"columns": {name: {...}}, "order": [names]}."""
    used = set() if used is None else used
    n = draw(st.integers(min_cols, max_cols))
    names = list(draw(st.permutations(COLS)))[:n]
    kinds = {}
    for nm in names:
        kinds[nm] = draw(st.sampled_from(["categorical", "categorical", "value", "ignored"]))
    hed_bearing = [nm for nm in names if kinds[nm] != "ignored"]
    # references: a referencing column may only name HED-bearing columns (or HED) that themselves have no refs
    referencing = {}
    if allow_refs and hed_bearing:
        targets_pool = list(hed_bearing) + (["HED"] if hed_column else [])
        for nm in hed_bearing:
            if len(referencing) >= 2:
                break
            if draw(st.integers(0, 2)) == 0:
                cands = [t for t in targets_pool if t != nm and t not in referencing]
                if cands:
                    k = draw(st.integers(1, min(2, len(cands))))
                    referencing[nm] = list(draw(st.permutations(cands)))[:k]
        # a referenced column must not itself reference
        referenced = {t for ts in referencing.values() for t in ts}
        for nm in list(referencing):
            if nm in referenced:
                del referencing[nm]
    cols = {}
    for nm in names:
        kind = kinds[nm]
        refs = referencing.get(nm, [])
        if kind == "categorical":
            nk = draw(st.integers(1, 3))
            keys = list(draw(st.permutations(KEYS)))[:nk]
            entries = {}
            for i, k in enumerate(keys):
                entries[k] = draw(template(version, used, refs=refs if i == 0 or draw(st.booleans()) else ()))
            cols[nm] = {"kind": kind, "entries": entries, "extra": draw(st.booleans())}
        elif kind == "value":
            cols[nm] = {"kind": kind, "template": draw(template(version, used, refs=refs, placeholder=True)),
                        "extra": draw(st.booleans())}
        else:
            cols[nm] = {"kind": kind, "body": draw(st.sampled_from([{"Description": "free text"},
                                                                    {"Levels": {"a": "x", "b": "y"}},
                                                                    {"LongName": "n", "Units": "s"}]))}
    return {"columns": cols, "order": names}


def sidecar_json(spec):
    """Render the spec to the plain JSON object a BIDS sidecar would hold."""
    out = {}
    for nm in spec["order"]:
        c = spec["columns"][nm]
        if c["kind"] == "categorical":
            d = {"HED": {k: gen_hed.render(t) for k, t in c["entries"].items()}}
            if c.get("extra"):
                d["Levels"] = {k: "level " + k for k in c["entries"]}
                d["Description"] = "a categorical column"
            out[nm] = d
        elif c["kind"] == "value":
            d = {"HED": gen_hed.render(c["template"])}
            if c.get("extra"):
                d["Description"] = "a value column"
            out[nm] = d
        else:
            out[nm] = copy.deepcopy(c["body"])
    return out


# ---------------------------------------------------------------------------------------------------------------
# arbitrary JSON (totality)
HEDISH_KEYS = ["HED", "Levels", "Description", "n/a", "go", "a", "#", "{x}"]
HEDISH_STRS = ["Red", "Label/#", "{a}", "{HED}", "(Red, Blue)", "n/a", "", "#", "Def/X", "(Definition/D, (Red))",
               "Red, {b", "}", "((", "Label/# , Age/#", "{trial_type}", "Sensory-event, {resp}"]

json_scalar = st.one_of(st.none(), st.booleans(), st.integers(-5, 5), st.floats(allow_nan=False, allow_infinity=False,
                                                                                width=16),
                        st.sampled_from(HEDISH_STRS), st.text(max_size=6))
json_value = st.recursive(json_scalar,
                          lambda ch: st.one_of(st.lists(ch, max_size=3),
                                               st.dictionaries(st.one_of(st.sampled_from(HEDISH_KEYS),
                                                                         st.text(max_size=4)), ch, max_size=3)),
                          max_leaves=8)
