"""Sidecar / events-table generators and the reference assembler (C06, C07, C08, C12, C16).

A sidecar spec is a JSON-able dict {column: {"kind": categorical|value|ignored, ...}} from which the JSON sidecar is
rendered; annotation templates are gen_hed trees in which a leaf may be a column reference {"ref": name}.
"""
import copy

from hypothesis import strategies as st

from vlib import gen_hed

# column names: the characters a curly-brace reference may hold are letters, digits, '_' and '-', in any case
COLS = ["trial_type", "resp", "stim_file", "rt", "cond", "blockx", "2", "Resp-Time", "a_b"]
KEYS = ["go", "stop", "left", "right", "k1", "k2", "Aa", "7"]


def make_ref(name):
    return {"t": "{" + name + "}", "id": "ref:" + name, "kind": "ref", "ref": name}


@st.composite
def template(draw, version, used, refs=(), max_depth=2, placeholder=False, max_children=3):
    """An annotation tree (no special tags) with the given column references spliced in at generated positions and,
    for value columns, exactly one 'Node/#' tag."""
    ann = draw(gen_hed.annotation(version, allow_placeholder=False, max_depth=max_depth, with_defs=False,
                                  vary=draw(st.booleans()), specials=False, used=used, max_children=max_children))
    tree = ann["tree"]
    if placeholder:
        pl = gen_hed.pool(version)
        cands = [n for n in pl.valued if n.long not in used]
        node = cands[draw(st.integers(0, len(cands) - 1))]
        used.add(node.long)
        item = gen_hed.make_tag(f"{node.short}/#", gen_hed.tag_id(node, "#"), node=node.long, kind="placeholder")
        path, lst = draw(st.sampled_from(list(gen_hed.all_groups(tree))))
        lst.insert(draw(st.integers(0, len(lst))), item)
    for r in refs:
        how = draw(st.integers(0, 3))
        spots = list(gen_hed.all_groups(tree))
        path, lst = draw(st.sampled_from(spots))
        if how == 0:   # alone in its own group
            lst.insert(draw(st.integers(0, len(lst))), gen_hed.make_group([make_ref(r)]))
        else:
            lst.insert(draw(st.integers(0, len(lst))), make_ref(r))
    return tree


@st.composite
def sidecar_spec(draw, version, min_cols=1, max_cols=4, allow_refs=True, used=None, hed_column=False):
    """A structurally valid sidecar spec with individually valid annotations.
    Returns {"columns": {name: {...}}, "order": [names]}."""
    used = set() if used is None else used
    n = draw(st.integers(min_cols, max_cols))
    names = list(draw(st.permutations(COLS)))[:n]
    kinds = {}
    for nm in names:
        kinds[nm] = draw(st.sampled_from(["categorical", "categorical", "value", "ignored"]))
    hed_bearing = [nm for nm in names if kinds[nm] != "ignored"]
    # references: a referencing column may only name HED-bearing columns (or HED) that themselves have no refs
    referencing = {}
    if allow_refs and hed_bearing:
        targets_pool = list(hed_bearing) + (["HED"] if hed_column else [])
        for nm in hed_bearing:
            if len(referencing) >= 2:
                break
            if draw(st.integers(0, 2)) == 0:
                cands = [t for t in targets_pool if t != nm and t not in referencing]
                if cands:
                    k = draw(st.integers(1, min(2, len(cands))))
                    referencing[nm] = list(draw(st.permutations(cands)))[:k]
        # a referenced column must not itself reference
        referenced = {t for ts in referencing.values() for t in ts}
        for nm in list(referencing):
            if nm in referenced:
                del referencing[nm]
    cols = {}
    for nm in names:
        kind = kinds[nm]
        refs = referencing.get(nm, [])
        if kind == "categorical":
            nk = draw(st.integers(1, 3))
            keys = list(draw(st.permutations(KEYS)))[:nk]
            entries = {}
            for i, k in enumerate(keys):
                entries[k] = draw(template(version, used, refs=refs if i == 0 or draw(st.booleans()) else ()))
            cols[nm] = {"kind": kind, "entries": entries, "extra": draw(st.booleans())}
        elif kind == "value":
            cols[nm] = {"kind": kind, "template": draw(template(version, used, refs=refs, placeholder=True)),
                        "extra": draw(st.booleans())}
        else:
            cols[nm] = {"kind": kind, "body": draw(st.sampled_from([{"Description": "free text"},
                                                                    {"Levels": {"a": "x", "b": "y"}},
                                                                    {"LongName": "n", "Units": "s"}]))}
    return {"columns": cols, "order": names}


def sidecar_json(spec):
    """Render the spec to the plain JSON object a BIDS sidecar would hold."""
    out = {}
    for nm in spec["order"]:
        c = spec["columns"][nm]
        if c["kind"] == "categorical":
            d = {"HED": {k: gen_hed.render(t) for k, t in c["entries"].items()}}
            if c.get("extra"):
                d["Levels"] = {k: "level " + k for k in c["entries"]}
                d["Description"] = "a categorical column"
            out[nm] = d
        elif c["kind"] == "value":
            d = {"HED": gen_hed.render(c["template"])}
            if c.get("extra"):
                d["Description"] = "a value column"
            out[nm] = d
        else:
            out[nm] = copy.deepcopy(c["body"])
    return out


# ---------------------------------------------------------------------------------------------------------------
# arbitrary JSON (totality)
HEDISH_KEYS = ["HED", "Levels", "Description", "n/a", "go", "a", "#", "{x}"]
HEDISH_STRS = ["Red", "Label/#", "{a}", "{HED}", "(Red, Blue)", "n/a", "", "#", "Def/X", "(Definition/D, (Red))",
               "Red, {b", "}", "((", "Label/# , Age/#", "{trial_type}", "Sensory-event, {resp}"]

json_scalar = st.one_of(st.none(), st.booleans(), st.integers(-5, 5), st.floats(allow_nan=False, allow_infinity=False,
                                                                                width=16),
                        st.sampled_from(HEDISH_STRS), st.text(max_size=6))
json_value = st.recursive(json_scalar,
                          lambda ch: st.one_of(st.lists(ch, max_size=3),
                                               st.dictionaries(st.one_of(st.sampled_from(HEDISH_KEYS),
                                                                         st.text(max_size=4)), ch, max_size=3)),
                          max_leaves=8)


# ---------------------------------------------------------------------------------------------------------------
# tables and the reference assembler
def text_tree(children):
    """gen_hed tree -> nested lists of tag texts ({ref} leaves become ('ref', name))."""
    out = []
    for c in children:
        if gen_hed.is_group(c):
            out.append(text_tree(c["g"]))
        elif c.get("kind") == "ref":
            out.append(("ref", c["ref"]))
        else:
            out.append(c["t"])
    return out


def parsed_tree(text):
    """Reference parse of a HED string into nested lists of tag texts (None if unbalanced)."""
    stack = [[]]
    cur = ""
    for ch in text:
        if ch in ",()":
            t = cur.strip(" ")
            if t:
                stack[-1].append(t)
            cur = ""
            if ch == "(":
                stack.append([])
            elif ch == ")":
                if len(stack) == 1:
                    return None
                g = stack.pop()
                stack[-1].append(g)
        else:
            cur += ch
    t = cur.strip(" ")
    if t:
        stack[-1].append(t)
    if len(stack) != 1:
        return None
    return stack[0]


def canon(tree):
    """Order-insensitive canonical form of a nested list of strings."""
    items = []
    for x in tree:
        if isinstance(x, list):
            items.append(("g", canon(x)))
        else:
            items.append(("t", x))
    return tuple(sorted(items, key=repr))


import re as _re
_BAD_DELIMS = [_re.compile(p) for p in (r",\s*,", r"\(\s*,", r",\s*\)", r"^\s*,", r",\s*$", r"\(\s*\)")]


def delimiter_well_formed(text):
    if parsed_tree(text) is None:
        return False
    return not any(p.search(text) for p in _BAD_DELIMS)


def contribution(colspec, cell):
    """The annotation tree a cell contributes, or None when it contributes nothing."""
    kind = colspec["kind"]
    if kind == "categorical":
        t = colspec["entries"].get(cell)
        return None if t is None else text_tree(t)
    if kind == "value":
        if cell in ("n/a", ""):
            return None
        return text_tree(gen_hed.substitute(colspec["template"], cell))
    if kind == "hed":
        if cell in ("n/a", ""):
            return None
        return parsed_tree(cell)
    return None


def resolve(tree, contribs):
    out = []
    for x in tree:
        if isinstance(x, tuple) and x[0] == "ref":
            sub = contribs.get(x[1])
            if sub is not None:
                out.extend(resolve(sub, contribs))
        elif isinstance(x, list):
            g = resolve(x, contribs)
            if g:
                out.append(g)
        else:
            out.append(x)
    return out


def all_refs(spec):
    refs = set()
    for c in spec["columns"].values():
        trees = [c["template"]] if c["kind"] == "value" else list(c.get("entries", {}).values())
        for t in trees:
            for x in gen_hed.flatten(t):
                if x.get("kind") == "ref":
                    refs.add(x["ref"])
    return refs


def reference_assemble(spec, header, rows):
    """Expected annotation tree per row (order-insensitive canonical form is compared)."""
    cols = dict(spec["columns"])
    if "HED" in header:
        cols["HED"] = {"kind": "hed"}
    referenced = all_refs(spec) & set(header)
    out = []
    for row in rows:
        cells = dict(zip(header, row))
        contribs = {}
        for name, cs in cols.items():
            if name in cells and cs["kind"] != "ignored":
                contribs[name] = contribution(cs, cells[name])
        result = []
        for name in header:
            if name in contribs and name not in referenced and contribs[name] is not None:
                result.extend(resolve(contribs[name], contribs))
        out.append(result)
    return out


@st.composite
def table_for(draw, spec, version, used, min_rows=1, max_rows=6, hed_column=None, onset=None, empty_cells=True):
    """A table (header, rows of str) over the sidecar's columns (+ optional HED / onset / unrelated columns)."""
    pl = gen_hed.pool(version)
    names = list(spec["order"])
    refs = all_refs(spec)
    if hed_column is None:
        hed_column = ("HED" in refs) or draw(st.booleans())
    # drop some unreferenced sidecar columns from the file; keep every referenced one (see check assumptions)
    keep = [n for n in names if n in refs or draw(st.integers(0, 4)) > 0]
    if not keep and not hed_column:
        keep = names[:1]
    header = list(keep)
    if hed_column:
        header.append("HED")
    if draw(st.booleans()):
        header.append("unrelated")
    header = list(draw(st.permutations(header)))
    if onset is None:
        onset = draw(st.booleans())
    if onset:
        header = ["onset", "duration"] + header
    nrows = draw(st.integers(min_rows, max_rows))
    hed_cells = {}
    rows = []
    absent = ["n/a"] + ([""] if empty_cells else [])
    for r in range(nrows):
        row = []
        for h in header:
            if h == "onset":
                row.append(str(round(r * 3.7 + 0.5, 2)))   # 0.5, 4.2, 7.9, 11.6, ...: string order != numeric order
            elif h == "duration":
                row.append("n/a")
            elif h == "unrelated":
                row.append(draw(st.sampled_from(["x", "n/a", "3"])))
            elif h == "HED":
                m = draw(st.integers(0, 3))
                if m == 0:
                    row.append(draw(st.sampled_from(absent)))
                else:
                    tree = draw(template(version, used, max_depth=1, max_children=2))
                    row.append(gen_hed.render(tree))
            else:
                cs = spec["columns"][h]
                if cs["kind"] == "categorical":
                    m = draw(st.integers(0, 5))
                    if m == 0:
                        row.append(draw(st.sampled_from(absent)))
                    elif m == 1:
                        row.append("zzz-unknown")
                    else:
                        row.append(draw(st.sampled_from(sorted(cs["entries"]))))
                elif cs["kind"] == "value":
                    if draw(st.integers(0, 3)) == 0:
                        row.append(draw(st.sampled_from(absent)))
                    else:
                        ph = [x for x in gen_hed.flatten(cs["template"]) if x.get("kind") == "placeholder"][0]
                        node = pl.m.by_long[ph["node"].casefold()]
                        val, _ = gen_hed.value_for(draw, node, pl)
                        row.append(val)
                else:
                    row.append(draw(st.sampled_from(["a", "b", "n/a"])))
        rows.append(row)
    return {"header": header, "rows": rows}


def to_tsv(table):
    lines = ["\t".join(table["header"])]
    for r in table["rows"]:
        lines.append("\t".join(r))
    return "\n".join(lines) + "\n"
