"""Coverage-guided engine (atheris / libFuzzer) used by the thorough tier of a few checks.

Run as a subprocess:   python -m vlib.fuzz <target> <work_dir> <runs> <seed>

The fuzz target decodes the bytes into a structured case (token sequence, JSON document), runs the CHECK'S OWN ORACLE on
it, and keeps going: a case with a violation is written to <work_dir>/violations/, libFuzzer keeps every
coverage-increasing input in <work_dir>/corpus/.  The calling check then replays corpus + violations through the
normal framework (classification, shrinking, replay files, evidence) - the engine only chooses the inputs.

Decoders are pure functions of the bytes, so a saved input reproduces without the fuzzer.
"""
import hashlib
import json
import os
import subprocess
import sys

ROOT = os.path.dirname(os.path.dirname(os.path.abspath(__file__)))
DEPS = os.path.join(ROOT, ".deps")


# ---------------------------------------------------------------------------------------------------------------
# decoders: bytes -> case
def decode_tokens(data, tokens):
    """First byte: mode. Mode even: every byte picks a token; mode odd: bytes are UTF-8 text (errors replaced)
    with every 0xFF byte replaced by the next token."""
    if not data:
        return ""
    mode, body = data[0], data[1:]
    if mode % 2 == 0:
        return "".join(tokens[b % len(tokens)] for b in body)
    out, k = [], 0
    for chunk in body.split(b"\xff"):
        out.append(chunk.decode("utf-8", errors="replace").replace("�", ""))
        out.append(tokens[k % len(tokens)])
        k += 7
    return "".join(out[:-1])


def decode_json(data, depth=3):
    """A JSON-like document from bytes (objects, lists, strings, numbers, booleans, null), to the given depth."""
    pos = [0]
    keys = ["HED", "trial_type", "resp", "Levels", "Description", "go", "stop", "n/a", "2", "x"]
    strings = ["Red", "Label/#", "{resp}", "{HED}", "(Red, Blue)", "", "n/a", "Def/A", "{", "}", "Age/# years", "#"]

    def byte():
        if pos[0] >= len(data):
            return 0
        b = data[pos[0]]
        pos[0] += 1
        return b

    def value(d):
        k = byte() % (8 if d > 0 else 6)
        if k == 0:
            return strings[byte() % len(strings)]
        if k == 1:
            return byte() - 100
        if k == 2:
            return [None, True, False, 1.5][byte() % 4]
        if k in (3, 4, 5):
            n = byte() % 6
            raw = bytes(byte() for _ in range(n))
            return strings[byte() % len(strings)] + raw.decode("latin-1")
        if k == 6:
            return [value(d - 1) for _ in range(byte() % 4)]
        return {keys[byte() % len(keys)]: value(d - 1) for _ in range(byte() % 4)}

    n = 1 + byte() % 3
    return {keys[byte() % len(keys)]: value(depth) for _ in range(n)}


TARGETS = {}


def target(name):
    def deco(fn):
        TARGETS[name] = fn
        return fn
    return deco


@target("c02")
def _c02():
    from checks import c02_parse as mod
    mod.warmup("thorough")

    def case_of(data):
        return {"text": decode_tokens(data, mod.TOKENS), "schema": "grp" if (data[:1] or b"\0")[0] % 4 >= 2 else "std"}
    return case_of, mod.oracle_unicode


@target("c15")
def _c15():
    from checks import c15_query as mod
    mod.warmup("thorough")

    def case_of(data):
        return decode_tokens(data, mod.TOKENS)
    return case_of, mod.oracle_compile


@target("c08")
def _c08():
    from checks import c08_sidecar as mod
    mod.warmup("thorough")
    return decode_json, mod.oracle_json


# ---------------------------------------------------------------------------------------------------------------
def campaign(target_name, work_dir, runs, seed, max_len=96):
    """Called by a check: run one campaign in a subprocess, return the list of saved inputs (bytes)."""
    os.makedirs(os.path.join(work_dir, "corpus"), exist_ok=True)
    os.makedirs(os.path.join(work_dir, "violations"), exist_ok=True)
    if not os.path.isdir(os.path.join(DEPS, "atheris")):
        return None
    env = dict(os.environ)
    env["PYTHONPATH"] = os.pathsep.join([ROOT, DEPS] + ([env["PYTHONPATH"]] if env.get("PYTHONPATH") else []))
    with open(os.path.join(work_dir, "fuzz.log"), "wb") as log:
        p = subprocess.run([sys.executable, "-W", "ignore", "-m", "vlib.fuzz", target_name, work_dir, str(runs), str(seed),
                            str(max_len)], env=env, cwd=ROOT, stdout=log, stderr=log)
    out = []
    for sub in ("violations", "corpus"):
        d = os.path.join(work_dir, sub)
        for f in sorted(os.listdir(d)):
            with open(os.path.join(d, f), "rb") as fp:
                out.append(fp.read())
    return out, p.returncode


def make_enum(target_name, runs, max_len=96):
    """enumerate_fn for a Part: each shard runs its own campaign (seed derived from VERIF_SEED and the shard number)
    and yields the decoded corpus and violation inputs. Yields nothing when atheris is not installed."""
    def enum(shard, nshards):
        import shutil
        import tempfile
        seed = int(os.environ.get("VERIF_SEED", "1") or 1) * 1000 + shard + 1
        work = tempfile.mkdtemp(prefix=f"fuzz_{target_name}_{shard}_", dir=os.environ.get("HOME"))
        try:
            res = campaign(target_name, work, runs, seed, max_len)
            if res is None:
                return
            case_of, _ = TARGETS[target_name]()
            for data in res[0]:
                yield case_of(data)
        finally:
            shutil.rmtree(work, ignore_errors=True)
    return enum


def available():
    return os.path.isdir(os.path.join(DEPS, "atheris"))


def main():
    name, work_dir, runs, seed, max_len = sys.argv[1], sys.argv[2], int(sys.argv[3]), int(sys.argv[4]), int(sys.argv[5])
    sys.path.insert(0, ROOT)
    import atheris
    os.environ.setdefault("VERIF_FUZZ_CHILD", "1")
    with atheris.instrument_imports(include=["hed"]):
        import hed  # noqa: F401
        import hed.models  # noqa: F401
        import hed.validator  # noqa: F401
        import hed.models.query_handler  # noqa: F401
    from vlib import hedenv  # noqa: F401
    import hed.schema as hs
    hs.set_cache_directory(os.path.join(work_dir, "hed_cache"))
    case_of, oracle = TARGETS[name]()
    vdir = os.path.join(work_dir, "violations")

    def one_input(data):
        try:
            out = oracle(case_of(data))
            bad = bool(out.violations)
        except Exception:  # an exception escaping the oracle is a finding too (the framework classifies it on replay)
            bad = True
        if bad:
            with open(os.path.join(vdir, hashlib.sha1(data).hexdigest()[:16]), "wb") as fp:
                fp.write(data)

    argv = [sys.argv[0], os.path.join(work_dir, "corpus"), f"-runs={runs}", f"-seed={seed or 1}", f"-max_len={max_len}",
            "-print_final_stats=1", "-verbosity=0"]
    atheris.Setup(argv, one_input)
    atheris.Fuzz()


if __name__ == "__main__":
    main()
