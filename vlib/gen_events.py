"""Event-history generators and reference temporal models (C10, C20).

A history is a list of rows; a row is {"onset": float, "markers": [...], "fillers": [tag texts]}; a marker is
{"kind": Onset|Offset|Inset, "name": as written (e.g. 'A', 'c/1'), "delay": float|None, "inner": tag text|None}.
"""
import itertools

from hypothesis import strategies as st

DEFS = ["(Definition/A, (Red))", "(Definition/B, (Blue))", "(Definition/C/#, (Item-count/#))",
        "(Definition/D/#, (Label/#))"]
NAMES = ["A", "a", "B", "C/1", "C/2", "c/1", "D/Left", "D/left", "d/LEFT", "D/Right"]
FILLERS = ["Green", "Square", "Triangle", "Walk", "Building", "Sound", "Attentive", "Agent", "Communicate", "Age/30",
           "Label/x1", "Label/x2", "Label/x3", "Label/x4", "Label/x5", "Label/x6"]
DELAY_SPELLINGS = ["{d} s", "{d} second", "{d} Seconds", "{ms} ms", "{ms} milliseconds"]


def key(name):
    return name.casefold()


def marker_text(m, delay_spelling=0):
    parts = []
    if m.get("delay") is not None:
        d = m["delay"]
        sp = DELAY_SPELLINGS[delay_spelling % len(DELAY_SPELLINGS)]
        parts.append("Delay/" + sp.format(d=_num(d), ms=_num(d * 1000)))
    parts.append(m["kind"])
    parts.append("Def/" + m["name"])
    if m.get("inner") and m["kind"] != "Offset":
        parts.append("(" + m["inner"] + ")")
    return "(" + ", ".join(parts) + ")"


def _num(x):
    s = repr(round(float(x), 6))
    return s[:-2] if s.endswith(".0") else s


def row_text(row, delay_spelling=0):
    items = list(row.get("fillers", [])) + [marker_text(m, delay_spelling + i) for i, m in enumerate(row["markers"])]
    return ", ".join(items) if items else "n/a"


def to_tsv(rows):
    lines = ["onset\tduration\tHED"]
    for i, r in enumerate(rows):
        lines.append(f"{_num(r['onset'])}\tn/a\t{row_text(r, i)}")
    return "\n".join(lines) + "\n"


def effective_points(rows):
    """{effective time: [(row index, marker)]} in file order."""
    pts = {}
    for ri, r in enumerate(rows):
        for m in r["markers"]:
            t = round(r["onset"] + (m.get("delay") or 0.0), 6)
            pts.setdefault(t, []).append((ri, m))
    return dict(sorted(pts.items()))


def run_point(state, markers):
    """Process the markers of one time point in the given order. Returns (new_state, errors) where errors is a list of
    error keys: marker kind (casefolded) for a repeated name, 'def/<name as written>' for an unmatched Offset/Inset."""
    state = set(state)
    used = set()
    errors = []
    for _, m in markers:
        k = key(m["name"])
        if k in used:
            errors.append(m["kind"].casefold())
            continue
        used.add(k)
        if m["kind"] == "Onset":
            state.add(k)
        elif k not in state:
            errors.append("def/" + m["name"].casefold())
        elif m["kind"] == "Offset":
            state.discard(k)
    return frozenset(state), errors


def point_outcomes(state, markers):
    """All (new_state, errors) reachable by processing the markers of one time point in SOME order. Names are
    independent of each other, and within one name only the choice of which marker comes first matters (the others
    are repeats), so this is exactly the set over all permutations, without enumerating them."""
    by_key = {}
    for _, m in markers:
        by_key.setdefault(key(m["name"]), []).append(m)
    results = {(frozenset(state), ())}
    for k, ms in by_key.items():
        firsts = {}
        for idx, m in enumerate(ms):
            firsts.setdefault((m["kind"], m["name"]), idx)
        new = set()
        for idx in firsts.values():
            first, others = ms[idx], ms[:idx] + ms[idx + 1:]
            for st_, errs in results:
                st2, e = set(st_), list(errs)
                if first["kind"] == "Onset":
                    st2.add(k)
                elif k not in st2:
                    e.append("def/" + first["name"].casefold())
                elif first["kind"] == "Offset":
                    st2.discard(k)
                e += [o["kind"].casefold() for o in others]
                new.add((frozenset(st2), tuple(sorted(e))))
        results = new
    return results


def possible_outcomes(rows, order_free=True, limit=5000):
    """Set of possible error multisets (as sorted tuples). Within one effective time point the order of markers is
    not fixed by the statement: every order is allowed (order_free) and the implementation must produce one."""
    pts = effective_points(rows)
    states = {(frozenset(), ()): None}
    for t, markers in pts.items():
        new = {}
        for (state, errs) in states:
            if order_free:
                outs = point_outcomes(state, markers)
            else:
                ns, e = run_point(state, tuple(markers))
                outs = {(ns, tuple(e))}
            for ns, e in outs:
                new[(ns, tuple(sorted(errs + tuple(e))))] = None
            if len(new) > limit:
                return None         # too many reachable outcomes to enumerate: the caller treats the case as undecided
        states = new
    return {errs for (_, errs) in states}


# ---------------------------------------------------------------------------------------------------------------
def enumerate_histories(max_markers, kinds=("Onset", "Offset", "Inset"), names=("A", "a", "B")):
    """All histories with 1..max_markers markers: each marker (kind, name), time index weakly increasing by steps of
    0/1, and a flag whether markers of one time point share a row or get their own rows."""
    alphabet = [(k, n) for k in kinds for n in names]
    for k in range(1, max_markers + 1):
        for seq in itertools.product(alphabet, repeat=k):
            for steps in itertools.product((0, 1), repeat=k - 1):
                for share in (False, True):
                    rows = []
                    t = 0
                    cur = None
                    for i, (kind, name) in enumerate(seq):
                        if i > 0 and steps[i - 1] == 1:
                            t += 1
                            cur = None
                        m = {"kind": kind, "name": name, "delay": None, "inner": None}
                        if cur is not None and share:
                            cur["markers"].append(m)
                        else:
                            cur = {"onset": 1.0 + 2.5 * t, "markers": [m], "fillers": []}
                            rows.append(cur)
                    if share and all(s == 1 for s in steps):
                        continue   # identical to the non-shared variant
                    yield rows


@st.composite
def history(draw, max_rows=8, delays=True, valid_only=False, names=NAMES, max_markers_per_row=2):
    nrows = draw(st.integers(1, max_rows))
    rows = []
    t = 1.0
    fill = list(FILLERS)
    open_keys = set()
    for r in range(nrows):
        if r > 0 and draw(st.integers(0, 3)) > 0:
            t = round(t + draw(st.sampled_from([0.5, 1.0, 2.5])), 6)
        nm = draw(st.integers(0, max_markers_per_row))
        markers = []
        for _ in range(nm):
            name = draw(st.sampled_from(names))
            kind = draw(st.sampled_from(["Onset", "Onset", "Offset", "Inset"]))
            delay = None
            if delays and draw(st.integers(0, 3)) == 0:
                delay = draw(st.sampled_from([0.5, 1.0, 2.5, 0.25]))
            inner = None
            if kind != "Offset" and draw(st.booleans()) and fill:
                inner = fill.pop(draw(st.integers(0, len(fill) - 1)))
            markers.append({"kind": kind, "name": name, "delay": delay, "inner": inner})
        fillers = []
        if fill and draw(st.booleans()):
            fillers.append(fill.pop(draw(st.integers(0, len(fill) - 1))))
        rows.append({"onset": t, "markers": markers, "fillers": fillers})
    return rows
