"""INDEPENDENT reader of HED schema XML files: xml.etree only, imports nothing from hed.

Derives, from the HED specification's rules, node paths, own and inherited attributes, '#' children with their
unit/value classes, units with symbol/SI/prefix flags, modifiers and conversion factors.
"""
import functools
import xml.etree.ElementTree as ET


class XNode:
    __slots__ = ("name", "long", "short", "attrs", "description", "parent", "children", "placeholder", "inherited")

    def __init__(self, name, parent):
        self.name = name
        self.parent = parent
        self.children = []
        self.attrs = {}           # attribute name -> list of values (empty list for boolean attributes)
        self.description = None
        self.placeholder = None   # the '#' child XNode if any
        self.inherited = {}
        if name == "#":
            self.long = parent.long + "/#"
            self.short = parent.short + "/#"
        else:
            self.long = (parent.long + "/" + name) if parent is not None else name
            self.short = name

    def has(self, attr):
        return attr in self.inherited

    def own(self, attr):
        return attr in self.attrs

    def value(self, attr):
        v = self.inherited.get(attr)
        return v

    def ancestors(self):
        n = self.parent
        while n is not None:
            yield n
            n = n.parent

    def path_terms(self):
        return self.long.split("/")


def _attrs_of(elem, tag="attribute"):
    out = {}
    for a in elem.findall(tag):
        name = a.findtext("name")
        vals = [v.text or "" for v in a.findall("value")]
        out.setdefault(name, []).extend(vals)
    return out


class XModel:
    def __init__(self, path):
        self.path = path
        root = ET.parse(path).getroot()
        self.root = root
        self.version = root.get("version")
        self.library = root.get("library")
        self.with_standard = root.get("withStandard")
        self.unmerged = root.get("unmerged")
        std = self.with_standard if self.library and self.with_standard else (None if self.library else self.version)
        self.standard_version = std
        # attribute definitions and their properties
        self.attr_defs = {}
        sec = root.find("schemaAttributeDefinitions")
        if sec is not None:
            for d in sec.findall("schemaAttributeDefinition"):
                self.attr_defs[d.findtext("name")] = _attrs_of(d, "property")
        self.prop_defs = []
        sec = root.find("propertyDefinitions")
        if sec is not None:
            self.prop_defs = [d.findtext("name") for d in sec.findall("propertyDefinition")]
        # generation: >= 8.3 style property names iff 'annotationProperty'/'tagDomain' style is declared
        self.gen83 = "annotationProperty" in self.prop_defs or "tagDomain" in self.prop_defs
        if self.gen83:
            self.inheritable = [a for a, props in self.attr_defs.items() if "annotationProperty" not in props]
        else:
            self.inheritable = [a for a, props in self.attr_defs.items() if "isInheritedProperty" in props]
            if not self.inheritable:
                self.inheritable = ["extensionAllowed"]
        # tags
        self.nodes = []          # all non-placeholder nodes, document order
        self.placeholders = []
        self.top = []
        sch = root.find("schema")
        for n in sch.findall("node"):
            self.top.append(self._read_node(n, None))
        for n in self.nodes:
            self._inherit(n)
        for n in self.placeholders:
            self._inherit(n)
        self.by_long = {n.long.casefold(): n for n in self.nodes}
        self.by_short = {}
        for n in self.nodes:
            self.by_short.setdefault(n.short.casefold(), []).append(n)
        # unit classes, units, modifiers, value classes
        self.unit_classes = {}
        sec = root.find("unitClassDefinitions")
        if sec is not None:
            for uc in sec.findall("unitClassDefinition"):
                units = {}
                for u in uc.findall("unit"):
                    units[u.findtext("name")] = {"attrs": _attrs_of(u), "description": u.findtext("description")}
                self.unit_classes[uc.findtext("name")] = {"attrs": _attrs_of(uc), "units": units,
                                                          "description": uc.findtext("description")}
        self.modifiers = {}
        sec = root.find("unitModifierDefinitions")
        if sec is not None:
            for m in sec.findall("unitModifierDefinition"):
                self.modifiers[m.findtext("name")] = {"attrs": _attrs_of(m), "description": m.findtext("description")}
        self.value_classes = {}
        sec = root.find("valueClassDefinitions")
        if sec is not None:
            for v in sec.findall("valueClassDefinition"):
                self.value_classes[v.findtext("name")] = {"attrs": _attrs_of(v),
                                                          "description": v.findtext("description")}

    def _read_node(self, elem, parent):
        node = XNode(elem.findtext("name"), parent)
        node.attrs = _attrs_of(elem)
        node.description = elem.findtext("description")
        if node.name == "#":
            parent.placeholder = node
            self.placeholders.append(node)
        else:
            self.nodes.append(node)
            if parent is not None:
                parent.children.append(node)
        for c in elem.findall("node"):
            self._read_node(c, node)
        return node

    def _inherit(self, node):
        """Specification: inheritable attributes apply to all descendants; a '#' placeholder and a node that has a
        '#' child do not inherit (value-taking nodes are not extendable and carry only their own attributes)."""
        inh = {k: list(v) for k, v in node.attrs.items()}
        if node.name != "#" and node.placeholder is None:
            for attr in self.inheritable:
                vals = []
                n = node
                while n is not None and n.placeholder is None:
                    if attr in n.attrs:
                        vals.append(n.attrs[attr])
                    n = n.parent
                if vals:
                    inh[attr] = [x for v in vals for x in v]
        node.inherited = inh

    # ---- derived views -------------------------------------------------------------------------------------
    def suffix_paths(self, node):
        """Every partial path ending in the node: short, ..., long."""
        terms = node.path_terms()
        return ["/".join(terms[i:]) for i in range(len(terms) - 1, -1, -1)]

    def is_deprecated(self, node):
        return any("deprecatedFrom" in n.attrs for n in [node] + list(node.ancestors()))

    def units_of_class(self, cls):
        return self.unit_classes[cls]["units"]

    def node_unit_classes(self, node):
        ph = node.placeholder
        if ph is None:
            return []
        return [c for v in ph.attrs.get("unitClass", []) for c in v.split(",")]

    def node_value_classes(self, node):
        ph = node.placeholder
        if ph is None:
            return []
        return [c for v in ph.attrs.get("valueClass", []) for c in v.split(",")]


@functools.lru_cache(maxsize=None)
def model(path):
    return XModel(path)
