"""Access to the code under test: schemas loaded once per process (cached), paths of the bundled files."""
import functools
import os

from vlib import core

SCHEMA_DATA = os.path.join(core.REPO_DIR, "hed", "schema", "schema_data")

BUNDLED = ["8.0.0", "8.1.0", "8.2.0", "8.3.0", "score_1.0.0", "score_1.1.0", "score_2.0.0",
           "testlib_1.0.2", "testlib_2.0.0", "testlib_2.1.0", "testlib_3.0.0"]
STANDARD = ["8.0.0", "8.1.0", "8.2.0", "8.3.0"]
PARTNERED = {"score_1.1.0": "8.2.0", "score_2.0.0": "8.3.0", "testlib_2.0.0": "8.2.0", "testlib_2.1.0": "8.2.0",
             "testlib_3.0.0": "8.2.0"}
LEGACY_LIBS = ["score_1.0.0", "testlib_1.0.2"]


def xml_path(version):
    return os.path.join(SCHEMA_DATA, f"HED{version}.xml" if version[0].isdigit() else f"HED_{version}.xml")


@functools.lru_cache(maxsize=None)
def schema(version):
    """version: str like '8.3.0' / 'score_2.0.0' / 'sc:score_2.0.0', or a tuple of such for a group."""
    from hed.schema import load_schema_version
    if isinstance(version, tuple):
        return load_schema_version(list(version))
    return load_schema_version(version)


@functools.lru_cache(maxsize=None)
def schema_from_file(version, namespace=None):
    from hed.schema import load_schema
    return load_schema(xml_path(version), schema_namespace=namespace)


def error_codes(issues, errors_only=True):
    from hed.errors.error_types import ErrorSeverity
    out = []
    for i in issues:
        if errors_only and i.get("severity", ErrorSeverity.ERROR) > ErrorSeverity.ERROR:
            continue
        out.append(i["code"])
    return out
