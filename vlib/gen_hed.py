"""Annotation grammar over the independent XML model: valid constructs, renderers, rewrites.

An annotation is a JSON-able tree: a tag is {"t": text, "id": canonical identity} and a group is {"g": [children]}.
The top level is a list of children.  Everything is drawn through Hypothesis so that it shrinks and replays.
"""
import functools

from hypothesis import strategies as st

from vlib import hedenv, xmlschema

SPECIAL = {"def", "def-expand", "definition", "onset", "offset", "inset", "duration", "delay", "event-context"}
SPECIAL_ATTRS = ("tagGroup", "topLevelTagGroup", "unique", "required", "reserved")


class Pool:
    """Classification of a schema's nodes by what can be soundly said about them from the XML alone."""

    def __init__(self, version):
        self.version = version
        m = self.m = xmlschema.model(hedenv.xml_path(version))
        self.plain = []          # usable alone, no special semantics
        self.extendable = []     # plain, extension allowed, no '#' child
        self.not_extendable = []  # plain, no extension allowed, no '#' child
        self.valued = []         # has '#' child, no special semantics
        self.require_child = []  # leaf use is an error
        for n in m.nodes:
            if m.is_deprecated(n) or n.short.casefold() in SPECIAL:
                continue
            if any(a in n.inherited or a in n.attrs for a in SPECIAL_ATTRS):
                continue
            if any(a in anc.attrs for anc in n.ancestors() for a in SPECIAL_ATTRS):
                continue
            if n.placeholder is not None:
                if any(a in n.placeholder.attrs for a in SPECIAL_ATTRS + ("deprecatedFrom",)):
                    continue
                self.valued.append(n)
            if "requireChild" in n.attrs:
                self.require_child.append(n)
                continue
            self.plain.append(n)
            if n.placeholder is None:
                (self.extendable if "extensionAllowed" in n.inherited else self.not_extendable).append(n)
        self.all_terms = {n.short.casefold() for n in m.nodes}
        self.has = {s: (s in m.by_short) for s in SPECIAL}
        self.gen83 = m.gen83

    def special(self, short):
        lst = self.m.by_short.get(short.casefold())
        return lst[0] if lst else None


@functools.lru_cache(maxsize=None)
def pool(version):
    return Pool(version)


# ---------------------------------------------------------------------------------------------------------------
# tag text
def spelled(draw, node, m, vary=True):
    """A valid spelling of the node name: any suffix path, optionally another letter case."""
    paths = m.suffix_paths(node)
    sp = paths[draw(st.integers(0, len(paths) - 1))] if vary else paths[0]
    if vary:
        mode = draw(st.integers(0, 5))
        if mode == 0:
            sp = sp.lower()
        elif mode == 1:
            sp = sp.upper()
        elif mode == 2:
            mask = draw(st.lists(st.booleans(), min_size=len(sp), max_size=len(sp)))
            sp = "".join(c.swapcase() if b else c for c, b in zip(sp, mask))
    return sp


NUM = st.one_of(
    st.integers(0, 9999).map(str),
    st.builds(lambda a, b: f"{a}.{b}", st.integers(0, 999), st.integers(0, 999)),
    st.builds(lambda a: f".{a}", st.integers(0, 999)),
    st.builds(lambda s, a, e: f"{s}{a}e{e}", st.sampled_from(["", "-", "+"]), st.integers(0, 99), st.integers(-9, 9)),
    st.builds(lambda a, b, E, e: f"{a}.{b}{E}{e}", st.integers(0, 99), st.integers(0, 99), st.sampled_from("eE"),
              st.sampled_from(["3", "+2", "-4"])),
    st.integers(1, 999).map(lambda i: f"-{i}"),
    st.integers(1, 999).map(lambda i: f"+{i}"),
)
NAME_ASCII = st.text(alphabet="abcdefgXYZ0123456789_-", min_size=1, max_size=10)
NAME_UNI = st.text(alphabet="abcXYZ019_-éßñ日本Ωж", min_size=1, max_size=10)
TEXT_ASCII = st.text(alphabet="abcdXYZ0189 _-.:;!?'\"+=<>@%&*^$|", min_size=1, max_size=14)
TEXT_UNI = st.text(alphabet="abcXYZ019 _-.:;!?é日Ω", min_size=1, max_size=14)
DATETIME = st.builds(lambda y, mo, d, h, mi, s, f: f"{y:04d}-{mo:02d}-{d:02d}T{h:02d}:{mi:02d}:{s:02d}{f}",
                     st.integers(1900, 2100), st.integers(1, 12), st.integers(1, 28), st.integers(0, 23),
                     st.integers(0, 59), st.integers(0, 59), st.sampled_from(["", ".5", ".123"]))
PLAIN_EXT = st.text(alphabet="abcdefXYZ0123456789-_", min_size=1, max_size=8)


def _clean_text(s):
    s = " ".join(s.split(" "))          # no double blanks
    s = s.strip(" ")
    while "  " in s:
        s = s.replace("  ", " ")
    return s


def value_for(draw, node, pl):
    """A value text that the node's '#' child accepts (valid for at least one of its value classes), with a unit of
    one of its unit classes when it has any.  Returns (value_text, has_unit)."""
    m = pl.m
    vcs = m.node_value_classes(node)
    ucs = m.node_unit_classes(node)
    uni = pl.gen83
    if ucs:
        num = draw(NUM)
        cls = draw(st.sampled_from(sorted(ucs)))
        units = m.units_of_class(cls)
        # declared names only (spelling variants are C11's business); prefix units stand before the number
        uname = draw(st.sampled_from(usable_units(units)))
        mode = draw(st.integers(0, 3))
        if mode == 0:
            return num, False      # bare number: only the missing-unit warning
        if "unitPrefix" in units[uname]["attrs"]:
            return f"{uname} {num}", True
        return f"{num} {uname}", True
    if not vcs:
        s = draw(PLAIN_EXT)
        return s, False
    vc = draw(st.sampled_from(sorted(vcs)))
    if vc == "numericClass":
        return draw(NUM), False
    if vc == "nameClass":
        return draw(NAME_UNI if uni else NAME_ASCII), False
    if vc == "dateTimeClass":
        return draw(DATETIME), False
    if vc == "textClass":
        s = _clean_text(draw(TEXT_UNI if uni else TEXT_ASCII))
        return (s or "x"), False
    return draw(NAME_ASCII), False   # labelClass and unknown classes: name-like text


def usable_units(units):
    """Declared unit names that are unambiguous: not deprecated, no blank inside the name (a unit is split from
    the number at the last blank, and the one such unit, 'degree Celsius', is deprecated)."""
    return sorted(u for u, d in units.items() if "deprecatedFrom" not in d["attrs"] and " " not in u)


def fresh_ext(draw, pl):
    s = "Xq" + draw(st.text(alphabet="abcdefghijk0123456789-", min_size=1, max_size=8)) + "z9"
    return s


def tag_id(node, suffix=""):
    return node.long.casefold() + ("/" + suffix.casefold() if suffix else "")


def make_tag(text, ident, **kw):
    d = {"t": text, "id": ident}
    d.update(kw)
    return d


def make_group(children, sealed=False):
    d = {"g": list(children)}
    if sealed:
        d["sealed"] = True
    return d


def is_group(x):
    return "g" in x


@st.composite
def simple_tag(draw, version, used, allow_placeholder=False, vary=True):
    """One valid non-special tag on a node not yet used in this annotation."""
    pl = pool(version)
    m = pl.m
    for _ in range(3):
        lists = {"plain": pl.plain, "ext": pl.extendable, "value": pl.valued}
        kind = draw(st.sampled_from([k for k in ("plain", "plain", "ext", "value", "value") if lists[k]]))
        lst = lists[kind]
        start = draw(st.integers(0, len(lst) - 1))
        node = None
        for k in range(len(lst)):       # linear probe to the next node not yet used (keeps shrinking sound)
            cand = lst[(start + k) % len(lst)]
            if cand.long not in used:
                node = cand
                break
        if node is None:
            continue
        used.add(node.long)
        sp = spelled(draw, node, m, vary)
        if kind == "plain":
            return make_tag(sp, tag_id(node), node=node.long, kind="plain")
        if kind == "ext":
            ext = fresh_ext(draw, pl)
            return make_tag(f"{sp}/{ext}", tag_id(node, ext), node=node.long, kind="ext")
        if allow_placeholder and draw(st.integers(0, 4)) == 0:
            return make_tag(f"{sp}/#", tag_id(node, "#"), node=node.long, kind="placeholder")
        val, has_unit = value_for(draw, node, pl)
        return make_tag(f"{sp}/{val}", tag_id(node, val), node=node.long, kind="value", unit=has_unit)
    raise AssertionError("could not draw a fresh tag")


@st.composite
def subtree(draw, version, used, depth, allow_placeholder=False, vary=True, min_children=1, max_children=4):
    """A list of children (tags and groups) without special tags."""
    n = draw(st.integers(min_children, max_children))
    out = []
    for _ in range(n):
        if depth > 0 and draw(st.integers(0, 2)) == 0:
            out.append(make_group(draw(subtree(version, used, depth - 1, allow_placeholder, vary, 1, 3))))
        else:
            out.append(draw(simple_tag(version, used, allow_placeholder, vary)))
    return out


# ---------------------------------------------------------------------------------------------------------------
# definitions (context for Def / Def-expand / temporal tags)
DEF_NAMES = ["MyDef", "Cond1", "Blk-x", "ValDef", "Rate9"]


@st.composite
def definitions(draw, version, used):
    """0-3 definitions: name, takes_value, content children (a list for the inner group).  The placeholder
    definitions put '#' on a value-taking node."""
    pl = pool(version)
    n = draw(st.integers(0, 3))
    names = draw(st.permutations(DEF_NAMES))[:n]
    defs = []
    for name in names:
        takes = draw(st.booleans())
        content = draw(subtree(version, used, 1, False, False, 1, 3))
        if takes:
            cands = [v for v in pl.valued if v.long not in used]
            named = [v for v in cands if pl.m.node_value_classes(v) == ["nameClass"] and not pl.m.node_unit_classes(v)]
            if named and draw(st.booleans()):
                cands = named           # half of the placeholders sit on nodes whose values are names (text rules apply)
            node = cands[draw(st.integers(0, len(cands) - 1))]
            used.add(node.long)
            content.insert(draw(st.integers(0, len(content))),
                           make_tag(f"{node.short}/#", tag_id(node, "#"), node=node.long, kind="placeholder"))
            if draw(st.integers(0, 2)) == 0 and pl.m.node_value_classes(node) in (["nameClass"], ["numericClass"]):
                # (only value classes in which def_value_for can always step aside by inserting a digit)
                # a sibling on the same node with a fixed value: once '#' is filled in, the two tags may sort either way
                v0, _ = value_for(draw, node, pl)
                content.insert(draw(st.integers(0, len(content))),
                               make_tag(f"{node.short}/{v0}", tag_id(node, v0), node=node.long, kind="value"))
        defs.append({"name": name, "takes": takes, "content": content})
    return defs


def def_strings(defs):
    out = []
    for d in defs:
        nm = d["name"] + ("/#" if d["takes"] else "")
        out.append(f"(Definition/{nm}, ({render(d['content'])}))")
    return out


def substitute(children, value):
    out = []
    for c in children:
        if is_group(c):
            out.append(make_group(substitute(c["g"], value)))
        elif c.get("kind") == "placeholder":
            nc = dict(c)
            nc["t"] = c["t"].replace("#", value)
            nc["id"] = c["id"].replace("#", value.casefold())
            nc["kind"] = "value"
            out.append(nc)
        else:
            out.append(dict(c))
    return out


def def_value_for(draw, d, pl):
    """A value acceptable for the definition's placeholder node."""
    ph = [c for c in flatten(d["content"]) if c.get("kind") == "placeholder"][0]
    node = pl.m.by_long[ph["node"].casefold()]
    val, _ = value_for(draw, node, pl)
    # values of Def tags may not contain a slash; a unit text is allowed ("3 ms")
    fixed = {c["t"].split("/", 1)[1].casefold() for c in flatten(d["content"])
             if c.get("kind") == "value" and c.get("node") == ph["node"] and "/" in c["t"]}
    while val.casefold() in fixed:      # never the value of a same-node sibling (that would be a repeated tag)
        i = next((k for k, ch in enumerate(val) if ch.isalnum()), 0)
        val = val[:i] + "1" + val[i:]    # deterministic, keeps the value in its class ("0" -> "10", "-3 ms" -> "-13 ms")
    return val


def flatten(children):
    for c in children:
        if is_group(c):
            yield from flatten(c["g"])
        else:
            yield c


def all_groups(children, path=(), include_sealed=False):
    """Yield (path, list) for the top level and every group: path is a tuple of child indexes.  Groups marked
    'sealed' (Def-expand, temporal, Duration, Event-context groups) and everything inside them are skipped unless
    include_sealed: nothing may be inserted there without changing their meaning."""
    yield path, children
    for i, c in enumerate(children):
        if is_group(c) and (include_sealed or not c.get("sealed")):
            yield from all_groups(c["g"], path + (i,), include_sealed)


def get_list(children, path):
    cur = children
    for i in path:
        cur = cur[i]["g"]
    return cur


def depth_of(children):
    d = 0
    for c in children:
        if is_group(c):
            d = max(d, 1 + depth_of(c["g"]))
    return d


# ---------------------------------------------------------------------------------------------------------------
@st.composite
def annotation(draw, version, allow_placeholder=False, max_depth=3, with_defs=True, vary=True, specials=True,
               used=None, max_children=4):
    """A rule-conforming annotation: {"version", "defs", "tree", "allow_placeholders"}."""
    pl = pool(version)
    used = set() if used is None else used
    defs = draw(definitions(version, used)) if (with_defs and pl.has["definition"] and pl.valued) else []
    tree = draw(subtree(version, used, max_depth, allow_placeholder, vary, 1, max_children))
    if specials:
        temporal_used = set()
        tops = []      # special top-level groups; closed to later insertions
        for d in defs:
            roll = draw(st.integers(0, 5))
            val = None
            if d["takes"]:
                val = def_value_for(draw, d, pl)
            ref = d["name"] + (f"/{val}" if val is not None else "")
            ident = "def/" + ref.casefold()
            if roll == 0:      # Def tag anywhere
                path, lst = draw(st.sampled_from(list(all_groups(tree))))
                lst.insert(draw(st.integers(0, len(lst))), make_tag(f"Def/{ref}", ident, kind="def", name=d["name"]))
            elif roll == 1 and pl.has["def-expand"]:   # Def-expand group anywhere
                content = substitute(d["content"], val) if val is not None else [dict(c) for c in d["content"]]
                grp = make_group([make_tag(f"Def-expand/{ref}", "def-expand/" + ref.casefold(), kind="defexpand",
                                           name=d["name"]), make_group(content)], sealed=True)
                path, lst = draw(st.sampled_from(list(all_groups(tree))))
                lst.insert(draw(st.integers(0, len(lst))), grp)
            elif roll == 2 and pl.has["onset"] and d["name"] not in temporal_used:
                temporal_used.add(d["name"])
                kinds = ["Onset", "Offset"] + (["Inset"] if pl.has["inset"] else [])
                kind = draw(st.sampled_from(kinds))
                members = [make_tag(kind, kind.casefold(), kind="temporal"),
                           make_tag(f"Def/{ref}", ident, kind="def", name=d["name"])]
                if kind != "Offset" and draw(st.booleans()):
                    members.append(make_group(draw(subtree(version, used, 1, False, vary, 1, 2))))
                members = draw(st.permutations(members))
                tops.append(make_group(members, sealed=True))
        if pl.has["duration"] and pl.special("Duration").placeholder is not None \
                and "topLevelTagGroup" in pl.special("Duration").attrs and draw(st.integers(0, 3)) == 0:
            num = draw(st.integers(1, 500))
            members = [make_tag(f"Duration/{num} ms", f"duration/{num} ms", kind="duration"),
                       make_group(draw(subtree(version, used, 1, False, vary, 1, 2)))]
            if pl.has["delay"] and draw(st.booleans()):
                members.append(make_tag(f"Delay/{num} s", f"delay/{num} s", kind="delay"))
            tops.append(make_group(draw(st.permutations(members)), sealed=True))
        if pl.has["event-context"] and draw(st.integers(0, 5)) == 0:
            tops.append(make_group([make_tag("Event-context", "event-context", kind="context"),
                                    make_group(draw(subtree(version, used, 0, False, vary, 1, 2)))], sealed=True))
        for grp in tops:
            tree.insert(draw(st.integers(0, len(tree))), grp)
    return {"version": version, "defs": defs, "tree": tree, "allow_placeholders": allow_placeholder}


# ---------------------------------------------------------------------------------------------------------------
# rendering
def render(children, sep=", ", opn="(", cls=")"):
    parts = []
    for c in children:
        if is_group(c):
            parts.append(opn + render(c["g"], sep, opn, cls) + cls)
        else:
            parts.append(c["t"])
    return sep.join(parts)


@st.composite
def render_spaced(draw, children):
    """Render with generated blanks around commas and parentheses (never inside a tag)."""
    sp = st.sampled_from(["", " ", "  "])
    parts = []
    for c in children:
        if is_group(c):
            inner = draw(render_spaced(c["g"]))
            parts.append("(" + draw(sp) + inner + draw(sp) + ")")
        else:
            parts.append(c["t"])
    out = ""
    for i, p in enumerate(parts):
        if i:
            out += draw(sp) + "," + draw(sp)
        out += p
    return out


def count_tags(children):
    return sum(1 for _ in flatten(children))


# ---------------------------------------------------------------------------------------------------------------
# hed-side helpers used by several checks
def build_def_dict(version, defs, schema=None):
    from hed.models.definition_dict import DefinitionDict
    if not defs:
        return None
    sch = schema or hedenv.schema(version)
    return DefinitionDict(def_strings(defs), sch)


def validate_text(text, version, defs, allow_placeholders, schema=None, def_dict="build"):
    from hed.models import HedString
    sch = schema or hedenv.schema(version)
    dd = build_def_dict(version, defs, sch) if def_dict == "build" else def_dict
    hs = HedString(text, sch, def_dict=dd)
    return hs.validate(allow_placeholders=allow_placeholders)


# ---------------------------------------------------------------------------------------------------------------
# single-rule mutations.  Each returns (name, expected_code, new_tree | None, text_fn | None).
TREE_MUTATIONS = ["unknown_tag", "ext_not_allowed", "ext_existing_term", "requires_child", "unit_foreign",
                  "unit_gibberish", "value_not_numeric", "value_bad_name_char", "placeholder_not_allowed",
                  "def_undeclared", "def_value_missing", "def_value_extra", "defexpand_altered", "duplicate_tag",
                  "duplicate_group", "taggroup_tag_at_top", "toplevel_group_nested", "definition_in_string",
                  "unique_twice", "empty_group", "onset_extra_group", "onset_no_def", "offset_with_group",
                  "duration_two_groups", "ext_bad_char", "toplevel_group_nested_twin",
                  "duplicate_among_same_base", "two_toplevel_tags_in_group", "empty_group_twice", "def_value_bad_char",
                  "def_value_wrong_class", "placeholder_on_plain_tag", "placeholder_twice_in_tag", "placeholder_bad_unit"]
TEXT_MUTATIONS = ["paren_extra_open", "paren_extra_close", "paren_removed", "paren_wrong_order", "double_comma",
                  "leading_comma", "trailing_comma", "comma_missing_before_group", "comma_missing_after_group",
                  "forbidden_char"]


def _name_class_defs(defs, m, value_class="nameClass"):
    out = []
    for d in defs:
        if d["takes"]:
            ph = [c for c in flatten(d["content"]) if c.get("kind") == "placeholder"][0]
            node = m.by_long[ph["node"].casefold()]
            if m.node_value_classes(node) == [value_class] and not m.node_unit_classes(node):
                out.append(d)
    return out


def _insert_somewhere(draw, tree, item, top_only=False, nested_only=False):
    spots = list(all_groups(tree))
    if top_only:
        spots = spots[:1]
    elif nested_only:
        spots = spots[1:] or spots[:1]
    path, lst = draw(st.sampled_from(spots))
    lst.insert(draw(st.integers(0, len(lst))), item)
    return path


def _units_not_in(m, node):
    mine = set(m.node_unit_classes(node))
    own_units = {u for c in mine for u in m.units_of_class(c)}
    out = []
    for cname, c in m.unit_classes.items():
        if cname in mine:
            continue
        for u, d in c["units"].items():
            # names only (symbols are short and may collide with prefixed spellings), not shared with own classes
            if "unitSymbol" in d["attrs"] or "unitPrefix" in d["attrs"] or u in own_units or " " in u or len(u) < 4:
                continue
            out.append(u)
    return sorted(out)


@st.composite
def mutated(draw, ann, kinds=None, start=0):
    """Apply exactly one rule violation to a valid annotation.  Returns a dict with the mutated tree or text."""
    import copy
    version = ann["version"]
    pl = pool(version)
    m = pl.m
    tree = copy.deepcopy(ann["tree"])
    defs = ann["defs"]
    allow_ph = ann["allow_placeholders"]
    used = {t.get("node") for t in flatten(tree)} | {t.get("node") for d in defs for t in flatten(d["content"])}

    def unused(lst):
        c = [n for n in lst if n.long not in used]
        return c

    avail = []
    for k in (kinds or TREE_MUTATIONS + TEXT_MUTATIONS):
        ok = True
        if k == "ext_not_allowed":
            ok = bool(unused(pl.not_extendable))
        elif k in ("ext_existing_term", "ext_bad_char"):
            ok = bool(unused(pl.extendable))
        elif k == "requires_child":
            ok = bool(pl.require_child) or pl.has["def"]
        elif k in ("unit_foreign", "unit_gibberish"):
            ok = any(m.node_unit_classes(n) for n in unused(pl.valued))
        elif k == "value_not_numeric":
            ok = any(m.node_value_classes(n) == ["numericClass"] for n in unused(pl.valued))
        elif k == "value_bad_name_char":
            ok = any(m.node_value_classes(n) == ["nameClass"] and not m.node_unit_classes(n) for n in unused(pl.valued))
        elif k == "placeholder_not_allowed":
            ok = (not allow_ph) and bool(unused(pl.valued))
        elif k == "duplicate_tag_value_case":
            ok = bool(unused(pl.extendable))
        elif k == "placeholder_on_plain_tag":
            ok = allow_ph and bool([n for n in unused(pl.extendable) if n.placeholder is None])
        elif k == "placeholder_twice_in_tag":
            ok = allow_ph and bool(unused(pl.valued))
        elif k == "placeholder_bad_unit":
            ok = allow_ph and any(m.node_unit_classes(n) for n in unused(pl.valued))
        elif k == "duplicate_among_same_base":
            ok = bool(unused(pl.valued))
        elif k == "two_toplevel_tags_in_group":
            ok = pl.has["event-context"] and pl.has["duration"] and \
                "topLevelTagGroup" in pl.special("Duration").attrs
        elif k == "def_undeclared":
            ok = pl.has["def"]
        elif k == "def_value_missing":
            ok = any(d["takes"] for d in defs)
        elif k == "def_value_extra":
            ok = any(not d["takes"] for d in defs)
        elif k == "def_value_bad_char":
            ok = bool(_name_class_defs(defs, m))
        elif k == "def_value_wrong_class":
            ok = bool(_name_class_defs(defs, m, "numericClass"))
        elif k == "defexpand_altered":
            ok = bool(defs) and pl.has["def-expand"]
        elif k == "duplicate_tag":
            ok = any(t.get("kind") in ("plain", "ext", "value") for _, lst in all_groups(tree) for t in lst
                     if not is_group(t))
        elif k == "duplicate_group":
            ok = any(is_group(c) and not c.get("sealed") for _, lst in all_groups(tree) for c in lst)
        elif k == "taggroup_tag_at_top":
            ok = bool(defs) and pl.has["def-expand"]
        elif k == "toplevel_group_nested":
            ok = bool(defs) and pl.has["onset"]
        elif k == "definition_in_string":
            ok = pl.has["definition"]
        elif k == "unique_twice":
            ok = pl.has["event-context"]
        elif k in ("onset_extra_group", "offset_with_group"):
            ok = bool(defs) and pl.has["onset"]
        elif k == "onset_no_def":
            ok = pl.has["onset"]
        elif k in ("duration_two_groups", "toplevel_group_nested_twin"):
            ok = pl.has["duration"] and "topLevelTagGroup" in pl.special("Duration").attrs
        elif k == "paren_removed":
            ok = any(is_group(c) for c in tree) or depth_of(tree) > 0
        elif k == "comma_missing_after_group":
            ok = True
        if ok:
            avail.append(k)
    order = (kinds or TREE_MUTATIONS + TEXT_MUTATIONS)
    order = order[start % len(order):] + order[:start % len(order)]
    if not avail:
        return {"mutation": None, "expect": None, "tree": tree, "text": None}
    kind = [k for k in order if k in avail][0]     # first applicable kind at or after the pre-drawn start index
    text = None
    expect = None

    def pick(lst):
        return lst[draw(st.integers(0, len(lst) - 1))]

    if kind == "unknown_tag":
        _insert_somewhere(draw, tree, make_tag("Qzx-unknown9" + draw(st.sampled_from(["", "/Abc", "/3 ms"])),
                                               "qzx", kind="bad"))
        expect = "TAG_INVALID"
    elif kind == "ext_not_allowed":
        node = pick(unused(pl.not_extendable))
        _insert_somewhere(draw, tree, make_tag(f"{spelled(draw, node, m)}/{fresh_ext(draw, pl)}", "bad", kind="bad"))
        expect = "TAG_EXTENSION_INVALID"
    elif kind == "ext_bad_char":
        node = pick(unused(pl.extendable))
        bad = draw(st.sampled_from(["Xq$z", "Ab=c", "q@r9", "Zz%", "new!one"]))
        _insert_somewhere(draw, tree, make_tag(f"{spelled(draw, node, m)}/{bad}", "bad", kind="bad"))
        expect = "CHARACTER_INVALID"
    elif kind == "ext_existing_term":
        node = pick(unused(pl.extendable))
        top = node.long.split("/")[0]
        others = [n for n in pl.plain if n.long.split("/")[0] != top]
        other = pick(others)
        _insert_somewhere(draw, tree, make_tag(f"{spelled(draw, node, m)}/{other.short}", "bad", kind="bad"))
        expect = "TAG_EXTENSION_INVALID"
    elif kind == "requires_child":
        if pl.require_child and (not pl.has["def"] or draw(st.booleans())):
            node = pick(pl.require_child)
            _insert_somewhere(draw, tree, make_tag(spelled(draw, node, m), "bad", kind="bad"))
        else:
            _insert_somewhere(draw, tree, make_tag("Def", "bad", kind="bad"))
        expect = "TAG_REQUIRES_CHILD"
    elif kind in ("unit_foreign", "unit_gibberish"):
        node = pick([n for n in unused(pl.valued) if m.node_unit_classes(n)])
        num = draw(NUM)
        if kind == "unit_foreign":
            foreign = _units_not_in(m, node)
            unit = pick(foreign)
        else:
            unit = "qzx" + draw(st.text(alphabet="abcdefg", min_size=1, max_size=4))
        _insert_somewhere(draw, tree, make_tag(f"{spelled(draw, node, m)}/{num} {unit}", "bad", kind="bad"))
        expect = "UNITS_INVALID"
    elif kind == "value_not_numeric":
        node = pick([n for n in unused(pl.valued) if m.node_value_classes(n) == ["numericClass"]])
        bad = draw(st.sampled_from(["abc", "1e", "1.2.3", "--1", "e5", "1 2"]))
        units = m.node_unit_classes(node)
        if units and bad != "1 2":
            u = usable_units(m.units_of_class(sorted(units)[0]))
            u = [x for x in u if "unitPrefix" not in m.units_of_class(sorted(units)[0])[x]["attrs"]]
            if u:
                bad = f"{bad} {u[0]}"
        if bad == "1 2" and units:
            bad = "abc"
        _insert_somewhere(draw, tree, make_tag(f"{spelled(draw, node, m)}/{bad}", "bad", kind="bad"))
        expect = "VALUE_INVALID"
    elif kind == "value_bad_name_char":
        node = pick([n for n in unused(pl.valued)
                     if m.node_value_classes(n) == ["nameClass"] and not m.node_unit_classes(n)])
        bad = draw(st.sampled_from(["a$b", "x y", "q.r", "a+b", "n@me", "a=b"]))
        _insert_somewhere(draw, tree, make_tag(f"{spelled(draw, node, m)}/{bad}", "bad", kind="bad"))
        expect = "CHARACTER_INVALID"
    elif kind == "placeholder_not_allowed":
        node = pick(unused(pl.valued))
        _insert_somewhere(draw, tree, make_tag(f"{spelled(draw, node, m)}/#", "bad", kind="bad"))
        expect = "PLACEHOLDER_INVALID"
    elif kind == "def_undeclared":
        _insert_somewhere(draw, tree, make_tag("Def/Nope99" + draw(st.sampled_from(["", "/3"])), "bad", kind="bad"))
        expect = "DEF_INVALID"
    elif kind == "def_value_missing":
        d = pick([d for d in defs if d["takes"]])
        _insert_somewhere(draw, tree, make_tag(f"Def/{d['name']}", "bad", kind="bad"))
        expect = "DEF_INVALID"
    elif kind == "def_value_extra":
        d = pick([d for d in defs if not d["takes"]])
        _insert_somewhere(draw, tree, make_tag(f"Def/{d['name']}/3", "bad", kind="bad"))
        expect = "DEF_INVALID"
    elif kind == "placeholder_on_plain_tag":
        # placeholders are allowed, but '#' stands on a tag that takes no value (it would be an extension named '#')
        node = pick([n for n in unused(pl.extendable) if n.placeholder is None])
        _insert_somewhere(draw, tree, make_tag(f"{spelled(draw, node, m)}/#", "bad", kind="bad"))
        expect = "PLACEHOLDER_INVALID"
    elif kind == "placeholder_twice_in_tag":
        node = pick(unused(pl.valued))
        _insert_somewhere(draw, tree, make_tag(f"{spelled(draw, node, m)}/{draw(st.sampled_from(['##', '#-#', '# #']))}",
                                               "bad", kind="bad"))
        expect = "PLACEHOLDER_INVALID"
    elif kind == "placeholder_bad_unit":
        node = pick([n for n in unused(pl.valued) if m.node_unit_classes(n)])
        _insert_somewhere(draw, tree, make_tag(f"{spelled(draw, node, m)}/# qzxq", "bad", kind="bad"))
        expect = "UNITS_INVALID"
    elif kind == "def_value_wrong_class":
        # a Def whose value is not of the class its placeholder node takes: a wrongly valued Def
        d = pick(_name_class_defs(defs, m, "numericClass"))
        _insert_somewhere(draw, tree, make_tag(f"Def/{d['name']}/{draw(st.sampled_from(['abc', 'x1y', 'one']))}", "bad",
                                               kind="bad"))
        expect = "DEF_INVALID"
    elif kind == "def_value_bad_char":
        # the value of a Def tag whose placeholder sits on a name-class node holds a character names may not have
        d = pick(_name_class_defs(defs, m))
        bad = draw(st.sampled_from(["a$b", "q%r", "n@me", "a=b", "x!"]))
        _insert_somewhere(draw, tree, make_tag(f"Def/{d['name']}/{bad}", "bad", kind="bad"))
        expect = "CHARACTER_INVALID"
    elif kind == "defexpand_altered":
        d = pick(defs)
        val = def_value_for(draw, d, pl) if d["takes"] else None
        ref = d["name"] + (f"/{val}" if val is not None else "")
        content = substitute(d["content"], val) if val is not None else copy.deepcopy(d["content"])
        how = draw(st.sampled_from(["extra", "removed", "changed", "second_group", "sibling_tag", "content_twice"]))
        flat = [c for c in content if not is_group(c)]
        members = None
        if how in ("second_group", "sibling_tag", "content_twice"):
            # the true content, plus something else beside it inside the Def-expand group
            extra = [n for n in pl.plain if n.long not in used]
            t = make_tag(pick(extra).short, "bad", kind="bad")
            other = {"second_group": make_group([t]), "sibling_tag": t,
                     "content_twice": make_group(copy.deepcopy(content))}[how]
            members = [make_tag(f"Def-expand/{ref}", "bad", kind="bad"), make_group(content)]
            members.insert(draw(st.integers(0, 2)), other)
        elif how == "removed" and len(content) > 1:
            content.pop(draw(st.integers(0, len(content) - 1)))
        elif how == "changed" and val is not None:
            content = substitute(d["content"], val + "9")
        else:
            extra = [n for n in pl.plain if n.long not in used]
            content.insert(draw(st.integers(0, len(content))), make_tag(pick(extra).short, "bad", kind="bad"))
        grp = make_group(members or [make_tag(f"Def-expand/{ref}", "bad", kind="bad"), make_group(content)],
                         sealed=True)
        _insert_somewhere(draw, tree, grp)
        expect = "DEF_EXPAND_INVALID"
    elif kind == "duplicate_tag":
        spots = [(lst, i) for _, lst in all_groups(tree) for i, t in enumerate(lst)
                 if not is_group(t) and t.get("kind") in ("plain", "ext", "value")]
        lst, i = pick(spots)
        t = lst[i]
        node = m.by_long[t["node"].casefold()]
        suffix = t["t"][len(t["t"].split("/")[0]):] if False else None
        # re-spell the name part only; keep value/extension verbatim
        name_len = None
        for sp in m.suffix_paths(node):
            if t["t"].casefold().startswith(sp.casefold()) and (name_len is None or len(sp) > name_len):
                if len(t["t"]) == len(sp) or t["t"][len(sp)] == "/":
                    name_len = len(sp)
        rest = t["t"][name_len:]
        copy_t = dict(t)
        copy_t["t"] = spelled(draw, node, m) + rest
        lst.insert(draw(st.integers(0, len(lst))), copy_t)
        expect = "TAG_EXPRESSION_REPEATED"
    elif kind == "duplicate_tag_value_case":
        # (not in the default lists: whether 'Label/Abc' repeats 'Label/abc' is left open - only used where the
        # verdict must merely be the same however the two are spelled and wherever they stand)
        extn = pick(unused(pl.extendable))
        ext = fresh_ext(draw, pl)
        a = make_tag(f"{spelled(draw, extn, m)}/{ext}", tag_id(extn, ext), node=extn.long, kind="ext")
        b = make_tag(f"{spelled(draw, extn, m)}/{ext.swapcase()}", tag_id(extn, ext), node=extn.long, kind="ext")
        path, lst = draw(st.sampled_from(list(all_groups(tree))))
        lst.insert(draw(st.integers(0, len(lst))), a)
        if draw(st.booleans()):     # a sibling of the same node that sorts between the two spellings
            mid = ext[0].upper() + "zz" + ext[1:]
            lst.insert(draw(st.integers(0, len(lst))), make_tag(f"{extn.short}/{mid}", tag_id(extn, mid),
                                                                  node=extn.long, kind="ext"))
        lst.insert(draw(st.integers(0, len(lst))), b)
        expect = "TAG_EXPRESSION_REPEATED"
    elif kind == "duplicate_group":
        spots = [(lst, i) for _, lst in all_groups(tree) for i, c in enumerate(lst)
                 if is_group(c) and not c.get("sealed")]
        lst, i = pick(spots)
        g = copy.deepcopy(lst[i])
        g["g"] = list(draw(st.permutations(g["g"])))
        lst.insert(draw(st.integers(0, len(lst))), g)
        expect = "TAG_EXPRESSION_REPEATED"
    elif kind == "taggroup_tag_at_top":
        d = pick(defs)
        val = def_value_for(draw, d, pl) if d["takes"] else None
        ref = d["name"] + (f"/{val}" if val is not None else "")
        tree.insert(draw(st.integers(0, len(tree))), make_tag(f"Def-expand/{ref}", "bad", kind="bad"))
        expect = "TAG_GROUP_ERROR"
    elif kind == "toplevel_group_nested":
        d = pick(defs)
        val = def_value_for(draw, d, pl) if d["takes"] else None
        ref = d["name"] + (f"/{val}" if val is not None else "")
        inner = make_group([make_tag("Onset", "onset", kind="temporal"), make_tag(f"Def/{ref}", "bad", kind="def")],
                           sealed=True)
        tree.insert(draw(st.integers(0, len(tree))), make_group([inner], sealed=True))
        expect = "TAG_GROUP_ERROR"
    elif kind == "definition_in_string":
        extra = [n for n in pl.plain if n.long not in used]
        tree.insert(draw(st.integers(0, len(tree))),
                    make_group([make_tag("Definition/Newdef77", "bad", kind="bad"),
                                make_group([make_tag(pick(extra).short, "bad", kind="bad")])], sealed=True))
        expect = "DEFINITION_INVALID"
    elif kind == "unique_twice":
        extra = [n for n in pl.plain if n.long not in used]
        have = sum(1 for t in flatten(tree) if t.get("kind") == "context")
        for k in range(2 - have):
            tree.insert(draw(st.integers(0, len(tree))),
                        make_group([make_tag("Event-context", "event-context", kind="context"),
                                    make_group([make_tag(extra[k * 7 % len(extra)].short, "x", kind="plain")])],
                                   sealed=True))
        expect = "TAG_NOT_UNIQUE"
    elif kind == "empty_group":
        _insert_somewhere(draw, tree, make_group([]))
        expect = "TAG_EMPTY"
    elif kind == "empty_group_twice":
        # the same fault twice in one list: two groups holding no tag at all (empty, or nothing but empty groups)
        path, lst = draw(st.sampled_from(list(all_groups(tree))))
        deep = draw(st.booleans())
        for _ in range(2):
            lst.insert(draw(st.integers(0, len(lst))), make_group([make_group([])] if deep else []))
        expect = "TAG_EMPTY"
    elif kind == "duplicate_among_same_base":
        # Node/v1, Node/v2, Node/v1 in one list: the two equal tags are separated by a same-base tag
        node = pick(unused(pl.valued))
        v1, _ = value_for(draw, node, pl)
        v2 = v1
        for _ in range(5):
            v2, _ = value_for(draw, node, pl)
            if v2.casefold() != v1.casefold():
                break
        if v2.casefold() == v1.casefold():
            v2 = v1 + "9" if not m.node_unit_classes(node) else "7"
        spots = list(all_groups(tree))
        path, lst = draw(st.sampled_from(spots))
        for val in draw(st.permutations([v1, v2, v1])):
            lst.insert(draw(st.integers(0, len(lst))),
                       make_tag(f"{spelled(draw, node, m)}/{val}", tag_id(node, val), node=node.long, kind="value"))
        expect = "TAG_EXPRESSION_REPEATED"
    elif kind == "two_toplevel_tags_in_group":
        # two top-level-only tags in one group that are not a legal (Delay + temporal) pair
        extra = [n for n in pl.plain if n.long not in used]
        inner = make_group([make_tag(extra[0].short, tag_id(extra[0]), node=extra[0].long, kind="plain")])
        pairs = [["Duration/3 s", "Event-context"], ["Duration/3 s", "Duration/4 s"]]
        if pl.has["delay"]:
            pairs += [["Delay/2 s", "Event-context"], ["Delay/2 s", "Delay/1 s"]]
        pair = pick(pairs)
        members = [make_tag(pair[0], pair[0].casefold(), kind="duration"),
                   make_tag(pair[1], pair[1].casefold(), kind="context" if "context" in pair[1] else "duration"), inner]
        tree.insert(draw(st.integers(0, len(tree))), make_group(draw(st.permutations(members)), sealed=True))
        expect = "TAG_GROUP_ERROR"
    elif kind == "toplevel_group_nested_twin":
        # a legal top-level Duration group plus an identical copy nested inside another group (the copy is misplaced)
        extra = [n for n in pl.plain if n.long not in used]
        inner = make_tag(extra[0].short, tag_id(extra[0]), node=extra[0].long, kind="plain")
        other = make_tag(extra[1].short, tag_id(extra[1]), node=extra[1].long, kind="plain")
        num = draw(st.integers(1, 90))

        def twin():
            return make_group([make_tag(f"Duration/{num} s", f"duration/{num} s", kind="duration"),
                               make_group([dict(inner)])], sealed=True)
        tree.insert(draw(st.integers(0, len(tree))), twin())
        tree.insert(draw(st.integers(0, len(tree))), make_group([other, twin()], sealed=True))
        expect = "TAG_GROUP_ERROR"
    elif kind in ("onset_extra_group", "onset_no_def", "offset_with_group", "duration_two_groups"):
        extra = [n for n in pl.plain if n.long not in used]
        g1 = make_group([make_tag(extra[0].short, tag_id(extra[0]), node=extra[0].long, kind="plain")])
        g2 = make_group([make_tag(extra[1].short, tag_id(extra[1]), node=extra[1].long, kind="plain")])
        if kind == "duration_two_groups":
            members = [make_tag("Duration/7 s", "duration/7 s", kind="duration"), g1, g2]
        elif kind == "onset_no_def":
            members = [make_tag("Onset", "onset", kind="temporal"), g1]
        else:
            taken = {t.get("name") for t in flatten(tree) if t.get("kind") == "def"}
            d = pick(defs)
            val = def_value_for(draw, d, pl) if d["takes"] else None
            ref = d["name"] + (f"/{val}" if val is not None else "")
            marker = "Onset" if kind == "onset_extra_group" else "Offset"
            members = [make_tag(marker, marker.casefold(), kind="temporal"),
                       make_tag(f"Def/{ref}", "def/" + ref.casefold(), kind="def", name=d["name"]), g1]
            if kind == "onset_extra_group":
                members.append(g2)
        tree.insert(draw(st.integers(0, len(tree))), make_group(draw(st.permutations(members)), sealed=True))
        expect = "TEMPORAL_TAG_ERROR"
    else:
        base = render(tree)
        # token boundaries: positions just before/after delimiters, and string ends (never inside a tag)
        bounds = sorted({0, len(base)} | {i for i, ch in enumerate(base) if ch in ",()"} |
                        {i + 1 for i, ch in enumerate(base) if ch in ",()"})
        pos = pick(bounds)
        if kind == "paren_extra_open":
            text, expect = base[:pos] + "(" + base[pos:], "PARENTHESES_MISMATCH"
        elif kind == "paren_extra_close":
            text, expect = base[:pos] + ")" + base[pos:], "PARENTHESES_MISMATCH"
        elif kind == "paren_removed":
            ps = [i for i, ch in enumerate(base) if ch in "()"]
            i = pick(ps)
            text, expect = base[:i] + base[i + 1:], "PARENTHESES_MISMATCH"
        elif kind == "paren_wrong_order":
            text, expect = base + "), (" + draw(simple_tag(version, set(used) - {None}))["t"], "PARENTHESES_MISMATCH"
        elif kind == "double_comma":
            cs = [i for i, ch in enumerate(base) if ch == ","]
            if cs:
                i = pick(cs)
                text = base[:i] + "," + draw(st.sampled_from(["", " "])) + base[i:]
            else:
                text = base + ",," + base.split(",")[0].replace("(", "").replace(")", "") + "x"
                text = base + ", , Qzx-unknown9"
            expect = "TAG_EMPTY"
        elif kind == "leading_comma":
            text, expect = "," + draw(st.sampled_from(["", " "])) + base, "TAG_EMPTY"
        elif kind == "trailing_comma":
            text, expect = base + draw(st.sampled_from(["", " "])) + ",", "TAG_EMPTY"
        elif kind == "comma_missing_before_group":
            extra = [n for n in pl.plain if n.long not in used]
            text = base + ", " + extra[0].short + draw(st.sampled_from(["", " "])) + "(" + extra[1].short + ")"
            expect = "COMMA_MISSING"
        elif kind == "comma_missing_after_group":
            extra = [n for n in pl.plain if n.long not in used]
            text = base + ", (" + extra[0].short + ")" + draw(st.sampled_from(["", " "])) + extra[1].short
            expect = "COMMA_MISSING"
        elif kind == "forbidden_char":
            chars = ["[", "]", "~"]
            if not allow_ph:
                chars += ["{", "}"]
            chars += ["\x07"] if pl.gen83 else ["é"]
            ch = pick(chars)
            p = draw(st.integers(0, len(base)))
            text = base[:p] + ch + base[p:]
            expect = "TILDES_UNSUPPORTED" if ch == "~" else "CHARACTER_INVALID"
    return {"mutation": kind, "expect": expect, "tree": tree if text is None else None, "text": text}


# ---------------------------------------------------------------------------------------------------------------
# meaning-preserving rewrites (C04): re-spelling, spacing, sibling order
def split_name(t, m):
    """Split a generated tag text into (node, name_text, rest) or None for tags that are not re-spellable."""
    if t.get("kind") == "bad":
        return None
    if t.get("node"):
        node = m.by_long[t["node"].casefold()]
    else:
        first = t["t"].split("/")[0]
        lst = m.by_short.get(first.casefold())
        if not lst:
            return None
        node = lst[0]
    best = None
    low = t["t"].casefold()
    for sp in m.suffix_paths(node):
        if low.startswith(sp.casefold()) and (len(low) == len(sp) or low[len(sp)] == "/"):
            if best is None or len(sp) > best:
                best = len(sp)
    if best is None:
        return None
    return node, t["t"][:best], t["t"][best:]


@st.composite
def rewritten(draw, tree, version):
    """Return (new_tree, text): tags re-spelled, siblings permuted, blanks changed."""
    import copy
    m = pool(version).m
    new = copy.deepcopy(tree)

    def walk(children):
        for c in children:
            if is_group(c):
                walk(c["g"])
            elif draw(st.booleans()):
                sn = split_name(c, m)
                if sn is not None:
                    node, _, rest = sn
                    c["t"] = spelled(draw, node, m) + rest
        if len(children) > 1 and draw(st.booleans()):
            perm = draw(st.permutations(list(range(len(children)))))
            children[:] = [children[i] for i in perm]
    walk(new)
    text = draw(render_spaced(new))
    return new, text
