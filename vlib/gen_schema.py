"""Schema XML editing on the ElementTree text model (no hed imports): fault seeding (C14) and edit scripts (C05, C03)."""
import copy
import functools
import xml.etree.ElementTree as ET

from vlib import hedenv


@functools.lru_cache(maxsize=None)
def _root(version):
    return ET.parse(hedenv.xml_path(version)).getroot()


def clone(version):
    return copy.deepcopy(_root(version))


def to_string(root):
    return '<?xml version="1.0" ?>\n' + ET.tostring(root, encoding="unicode")


def node_elements(root):
    """[(element, long name, parent element)] for every <node> in document order ('#' nodes included)."""
    out = []

    def walk(elem, prefix, parent):
        name = elem.findtext("name")
        long = f"{prefix}/{name}" if prefix else name
        out.append((elem, long, parent))
        for c in elem.findall("node"):
            walk(c, long, elem)
    sch = root.find("schema")
    for n in sch.findall("node"):
        walk(n, "", sch)
    return out


def attr_elems(elem, name=None):
    return [a for a in elem.findall("attribute") if name is None or a.findtext("name") == name]


def add_attr(elem, name, value=None):
    a = ET.Element("attribute")
    n = ET.SubElement(a, "name")
    n.text = name
    if value is not None:
        v = ET.SubElement(a, "value")
        v.text = value
    # attributes come after name/description and before child nodes/units
    idx = 0
    for i, c in enumerate(list(elem)):
        if c.tag in ("name", "description", "attribute"):
            idx = i + 1
    elem.insert(idx, a)
    return a


def set_attr_value(elem, name, value):
    for a in attr_elems(elem, name):
        vs = a.findall("value")
        if vs:
            vs[0].text = value
            return True
    return False


def unit_class_elems(root):
    sec = root.find("unitClassDefinitions")
    return [] if sec is None else sec.findall("unitClassDefinition")


def unit_elems(root):
    return [(u, uc) for uc in unit_class_elems(root) for u in uc.findall("unit")]


def modifier_elems(root):
    sec = root.find("unitModifierDefinitions")
    return [] if sec is None else sec.findall("unitModifierDefinition")


def value_class_elems(root):
    sec = root.find("valueClassDefinitions")
    return [] if sec is None else sec.findall("valueClassDefinition")


def declared_attrs(root):
    sec = root.find("schemaAttributeDefinitions")
    out = {}
    if sec is not None:
        for d in sec.findall("schemaAttributeDefinition"):
            out[d.findtext("name")] = {p.findtext("name") for p in d.findall("property")}
    return out


def new_node(name, description=None):
    e = ET.Element("node")
    n = ET.SubElement(e, "name")
    n.text = name
    if description is not None:
        d = ET.SubElement(e, "description")
        d.text = description
    return e
