"""CLI: python -m vlib.run <ID> [--tier quick|thorough] [--seed N] [--replay FILE] [--shards K]

exit 0: property held on everything explored (KNOWN-FINDING lines may be printed)
exit 1: at least one `VIOLATION property=<id> replay=<path>` line was printed
exit 2: harness error / inconclusive (never a violation)
"""
import argparse
import glob
import importlib
import json
import multiprocessing
import os
import shutil
import sys
import tempfile
import time
import traceback
import warnings


def _reexec_if_needed():
    want = {"PYTHONHASHSEED": "0"}
    if any(os.environ.get(k) != v for k, v in want.items()):
        env = dict(os.environ)
        env.update(want)
        os.execve(sys.executable, [sys.executable, "-m", "vlib.run"] + sys.argv[1:], env)


def _prepare_env():
    """Private HOME / HED cache, repo under test first on sys.path. Must run before `import hed`."""
    from vlib import core
    tmp = tempfile.mkdtemp(prefix="hedverif_")
    os.environ["HOME"] = tmp
    os.environ["HED_PYTHON_VERIF"] = "1"
    os.environ.setdefault("MPLBACKEND", "Agg")
    sys.path.insert(0, core.REPO_DIR)
    warnings.filterwarnings("ignore")
    import hed  # noqa
    hed_file = os.path.realpath(hed.__file__)
    if not hed_file.startswith(core.REPO_DIR + os.sep):
        raise core.HarnessError(f"hed imported from {hed_file}, expected under {core.REPO_DIR}")
    import hed.schema
    cache = os.path.join(tmp, "hed_cache")
    os.makedirs(cache, exist_ok=True)
    hed.schema.set_cache_directory(cache)
    return tmp


def _find_module(prop):
    from vlib import core
    hits = glob.glob(os.path.join(core.VERIF_DIR, "checks", f"{prop.lower()}_*.py"))
    if len(hits) != 1:
        raise core.HarnessError(f"no unique check module for {prop}: {hits}")
    return importlib.import_module("checks." + os.path.basename(hits[0])[:-3])


def _worker(args):
    prop, tier, seed_value, shard, nshards = args
    from vlib import core
    warnings.filterwarnings("ignore")
    mod = _find_module(prop)
    out = {}
    try:
        for idx, part in enumerate(mod.parts(tier)):
            stats = core.Stats()
            if part.setup:
                part.setup()
            if part.strategy is not None:
                if part.sharded:
                    n = part.n // nshards + (1 if shard < part.n % nshards else 0)
                else:
                    n = part.n if shard == 0 else 0
                s = seed_value * 100000 + idx * 1000 + shard
                if n > 0:
                    run_ok = False
                    try:
                        core.run_strategy_part(part, n, s, stats)
                        run_ok = True
                    finally:
                        if not run_ok:
                            pass
                for v in stats.first_by_sig.values():
                    v["seed"] = s
                    v["n"] = n
            else:
                core.run_enum_part(part, shard, nshards, stats)
            out[part.name] = stats.to_json()
    except core.HarnessError as exc:
        return {"__error__": str(exc)}
    except Exception as exc:  # hypothesis health check, generator bug, ...
        return {"__error__": f"{type(exc).__name__}: {exc}\n{traceback.format_exc()}"}
    return out


def _replay(mod, path):
    from vlib import core
    data = json.load(open(path))
    parts = {p.name: p for p in mod.parts(data.get("tier", "quick"))}
    part = parts[data["part"]]
    if part.setup:
        part.setup()
    stats = core.Stats()
    out = core.evaluate(part, data["case"], stats, 1)
    return out


def main(argv=None):
    _reexec_if_needed()
    ap = argparse.ArgumentParser()
    ap.add_argument("prop")
    ap.add_argument("--tier", default=os.environ.get("VERIF_TIER", "quick"), choices=["quick", "thorough"])
    ap.add_argument("--seed", type=int, default=None)
    ap.add_argument("--replay", default=None)
    ap.add_argument("--shards", type=int, default=None)
    args = ap.parse_args(argv)
    prop = args.prop.upper()
    seed_value = args.seed if args.seed is not None else int(os.environ.get("VERIF_SEED", "1") or 1)
    t0 = time.time()
    tmp = None
    try:
        from vlib import core
        tmp = _prepare_env()
        mod = _find_module(prop)
        known = core.KnownFindings(prop)

        if args.replay:
            out = _replay(mod, args.replay)
            rc = 0
            for sig, detail in out.violations:
                if known.is_known(sig):
                    print(f"KNOWN-FINDING: property={prop} {known.known[sig]['what']}")
                else:
                    print(f"VIOLATION property={prop} replay={args.replay}")
                    print(f"  signature: {sig}\n  detail: {detail}")
                    rc = 1
            if rc == 0:
                print(f"replay {args.replay}: no unlisted violation")
            return rc

        nshards = args.shards or getattr(mod, "SHARDS", {}).get(args.tier, 8 if args.tier == "quick" else 16)
        if hasattr(mod, "warmup"):
            mod.warmup(args.tier)
        parts = mod.parts(args.tier)
        # corpus: committed regression cases, replayed first (in the parent, through the same oracle)
        corpus_stats = core.Stats()
        by_name = {p.name: p for p in parts}
        for path in sorted(glob.glob(os.path.join(core.VERIF_DIR, "corpus", prop, "*.json"))):
            data = json.load(open(path))
            part = by_name.get(data["part"])
            if part is None:
                continue
            if part.setup:
                part.setup()
            core.evaluate(part, data["case"], corpus_stats, 10 ** 9)
        jobs = [(prop, args.tier, seed_value, sh, nshards) for sh in range(nshards)]
        if nshards == 1:
            results = [_worker(jobs[0])]
        else:
            ctx = multiprocessing.get_context("fork")
            with ctx.Pool(min(nshards, os.cpu_count() or 1)) as pool:
                results = pool.map(_worker, jobs, chunksize=1)
        errors = [r["__error__"] for r in results if "__error__" in r]
        if errors:
            print(f"HARNESS-ERROR property={prop}: {errors[0]}", file=sys.stderr)
            return 2
        per_part = {}
        for p in parts:
            per_part[p.name] = core.Stats.merge([r[p.name] for r in results if p.name in r])
        total = core.Stats.merge([s.to_json() for s in per_part.values()] + [corpus_stats.to_json()])
        # round-robin the samples over parts so that every part is visible in the evidence
        total.samples = []
        pools = [list(s.samples) for s in per_part.values()]
        while any(pools) and len(total.samples) < 12:
            for pl in pools:
                if pl and len(total.samples) < 12:
                    total.samples.append(pl.pop(0))

        rc = 0
        nviol = 0
        printed_known = set()
        for sig in sorted(total.first_by_sig):
            info = total.first_by_sig[sig]
            if known.is_known(sig):
                if sig not in printed_known:
                    printed_known.add(sig)
                    print(f"KNOWN-FINDING: property={prop} {known.known[sig]['what']} "
                          f"[signature {sig}; seen {total.count_by_sig.get(sig, 0)}x]")
                continue
            nviol += 1
            part = by_name[info["part"]]
            case = info["case"]
            if "seed" in info and part.strategy is not None and part.shrink:
                budget = 60 if args.tier == "quick" else 240
                case = core.shrink_signature(part, sig, info["n"], info["seed"], case, budget_s=budget)
            rdir = os.path.join(core.VERIF_DIR, "replays", prop)
            os.makedirs(rdir, exist_ok=True)
            rpath = os.path.join(rdir, core.case_hash([sig, case]) + ".json")
            with open(rpath, "w") as fp:
                json.dump({"property": prop, "tier": args.tier, "part": info["part"], "signature": sig,
                           "detail": info["detail"], "case": case}, fp, indent=1, default=repr)
            print(f"VIOLATION property={prop} replay={rpath}")
            print(f"  signature: {sig}  (seen {total.count_by_sig.get(sig, 0)}x)")
            print(f"  detail: {info['detail'][:600]}")
            print(f"  case: {core.canonical(case)[:600]}")
            rc = 1
        exhaustive = bool(parts) and all(p.exhaustive for p in parts)
        extra = {"parts": {name: {"evaluations": s.evaluations, "nontrivial": s.nontrivial,
                                  "distinct_nontrivial": s.distinct(),
                                  "exhaustive": by_name[name].exhaustive}
                           for name, s in per_part.items()},
                 "corpus_cases": corpus_stats.evaluations, "shards": nshards,
                 "known_findings_seen": sorted(printed_known)}
        if hasattr(mod, "extra_evidence"):
            extra.update(mod.extra_evidence(args.tier))
        wall = time.time() - t0
        core.write_evidence(prop, args.tier, seed_value, mod.LEVEL, total, mod.RULE, mod.ASSUMPTIONS, wall, nviol,
                            exhaustive, extra)
        print(f"{prop} {args.tier} seed={seed_value}: evaluations={total.evaluations} "
              f"nontrivial={total.nontrivial} distinct_nontrivial={total.distinct()} "
              f"violations={nviol} known={len(printed_known)} wall={wall:.1f}s")
        if total.evaluations == 0 or total.distinct() < 2:
            print(f"HARNESS-ERROR property={prop}: generator produced too few non-trivial cases", file=sys.stderr)
            return 2 if rc == 0 else rc
        return rc
    except Exception as exc:  # noqa
        print(f"HARNESS-ERROR property={prop}: {type(exc).__name__}: {exc}", file=sys.stderr)
        traceback.print_exc()
        return 2
    finally:
        if tmp:
            shutil.rmtree(tmp, ignore_errors=True)


if __name__ == "__main__":
    sys.exit(main())
