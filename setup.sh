#!/bin/sh
# Offline setup: make sure hypothesis is importable by /venv's python (it normally already is).
/venv/bin/python -c "import hypothesis" 2>/dev/null || \
  /venv/bin/pip install --no-index --find-links /opt/veriftools/wheels hypothesis
/venv/bin/python -c "import hypothesis, hed; print('hypothesis', hypothesis.__version__, 'hed from', hed.__file__)"
# Optional engine for the thorough tier of C02, C08, C15 (coverage-guided input choice). Best effort: without it those
# parts generate nothing and say so in the evidence; every other part is unaffected.
HERE=$(cd "$(dirname "$0")" && pwd)
[ -d "$HERE/.deps/atheris" ] || /venv/bin/pip install -q --no-index --find-links /opt/veriftools/wheels \
  --target "$HERE/.deps" atheris >/dev/null 2>&1 || echo "atheris not installed (coverage-guided parts will be empty)"
exit 0
