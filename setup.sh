#!/bin/sh
# Offline setup: make sure hypothesis is importable by /venv's python (it normally already is).
/venv/bin/python -c "import hypothesis" 2>/dev/null || \
  /venv/bin/pip install --no-index --find-links /opt/veriftools/wheels hypothesis
/venv/bin/python -c "import hypothesis, hed; print('hypothesis', hypothesis.__version__, 'hed from', hed.__file__)"
